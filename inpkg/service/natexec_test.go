// Injected into /repo/service with `go test -overlay` (see /verif/check). An interpreter for
// histories on one NAT entry with a fake outbound socket that records every SetReadDeadline.
// It uses only identifiers the repository's own udp_test.go uses (newNATmap, natmap.Add/Get,
// natconn.WriteTo). Generation, model and oracle live in the rapid harness.
package service

import (
	"bufio"
	"encoding/json"
	"errors"
	"net"
	"os"
	"sync"
	"testing"
	"time"

	"github.com/Jigsaw-Code/outline-sdk/transport/shadowsocks"
)

type vnOp struct {
	Kind      string `json:"kind"` // write | reply | pause | expire
	DNS       bool   `json:"dns"`
	V6        bool   `json:"v6"` // the peer (DNS server or other target) has an IPv6 address
	Ms        int    `json:"ms"`
	Fail      bool   `json:"fail"`       // write: the outbound socket refuses the send
	FailRelay bool   `json:"fail_relay"` // reply: sending it on to the client fails (datagram too large for the client's path, ...)
	Hold      bool   `json:"hold"`       // reply: the relay to the client is still in progress while the next operation (a write) happens
}

type vnReq struct {
	TimeoutMs int    `json:"timeout_ms"`
	Ops       []vnOp `json:"ops"`
}

type vnDeadline struct {
	AtNs    int64 `json:"at_ns"`    // when SetReadDeadline was called (since start)
	ValueNs int64 `json:"value_ns"` // the deadline (since start); 0 = cleared
	Op      int   `json:"op"`       // index of the operation in progress
}

type vnOpLog struct {
	T0Ns int64 `json:"t0_ns"`
	T1Ns int64 `json:"t1_ns"`
}

type vnResp struct {
	OK        bool         `json:"ok"`
	Err       string       `json:"err,omitempty"`
	Deadlines []vnDeadline `json:"deadlines"`
	Ops       []vnOpLog    `json:"ops"`
	Removed   int          `json:"removed"`
	Closed    bool         `json:"closed"`
	MapEmpty  bool         `json:"map_empty"`
	Replies   int          `json:"replies_relayed"`
	Returned  bool         `json:"copy_returned"`
	// the entry was removed / its socket closed / its removal reported before the history asked for expiry
	GoneEarly bool `json:"gone_early"`
}

type vnTimeoutErr struct{}

func (vnTimeoutErr) Error() string   { return "i/o timeout" }
func (vnTimeoutErr) Timeout() bool   { return true }
func (vnTimeoutErr) Temporary() bool { return true }

// vnFakeConn is the outbound socket: reads deliver injected packets, or time out once expiry is requested.
type vnFakeConn struct {
	mu       sync.Mutex
	start    time.Time
	deadline time.Time
	wake     chan struct{}
	pkts     []vnPkt
	log      []vnDeadline
	curOp    int
	closed   bool
	expire   bool
	failNext bool
}

type vnPkt struct {
	data []byte
	from net.Addr
}

func (c *vnFakeConn) poke() {
	select {
	case c.wake <- struct{}{}:
	default:
	}
}

func (c *vnFakeConn) ReadFrom(p []byte) (int, net.Addr, error) {
	for {
		c.mu.Lock()
		if c.closed {
			c.mu.Unlock()
			return 0, nil, net.ErrClosed
		}
		if len(c.pkts) > 0 {
			pk := c.pkts[0]
			c.pkts = c.pkts[1:]
			c.mu.Unlock()
			return copy(p, pk.data), pk.from, nil
		}
		if c.expire {
			c.mu.Unlock()
			return 0, nil, vnTimeoutErr{}
		}
		c.mu.Unlock()
		<-c.wake
	}
}

func (c *vnFakeConn) WriteTo(p []byte, addr net.Addr) (int, error) {
	c.mu.Lock()
	fail := c.failNext
	c.failNext = false
	c.mu.Unlock()
	if fail {
		return 0, errors.New("sendto: network is unreachable")
	}
	return len(p), nil
}
func (c *vnFakeConn) Close() error {
	c.mu.Lock()
	c.closed = true
	c.mu.Unlock()
	c.poke()
	return nil
}
func (c *vnFakeConn) LocalAddr() net.Addr {
	return &net.UDPAddr{IP: net.IPv4(127, 0, 0, 1), Port: 40000}
}
func (c *vnFakeConn) SetDeadline(t time.Time) error      { return c.SetReadDeadline(t) }
func (c *vnFakeConn) SetWriteDeadline(t time.Time) error { return nil }
func (c *vnFakeConn) SetReadDeadline(t time.Time) error {
	c.mu.Lock()
	c.deadline = t
	// The fake socket does not follow the wall clock (histories stay deterministic): only a deadline that
	// is already due when it is set makes the pending read time out, which is what a fast close does.
	if !t.IsZero() && !t.After(time.Now()) {
		c.expire = true
	} else {
		c.expire = false // extended (or cleared) before the pending read has timed out
	}
	v := int64(0)
	if !t.IsZero() {
		v = int64(t.Sub(c.start))
	}
	c.log = append(c.log, vnDeadline{AtNs: int64(time.Since(c.start)), ValueNs: v, Op: c.curOp})
	c.mu.Unlock()
	c.poke()
	return nil
}

// vnClientConn is the client-facing socket: counts relayed replies.
type vnClientConn struct {
	net.PacketConn
	mu       sync.Mutex
	n        int // relayed
	attempts int // WriteTo calls
	failNext bool
	hold     chan struct{} // non-nil: the next WriteTo blocks until it is closed
	entered  chan struct{}
}

func (c *vnClientConn) WriteTo(p []byte, addr net.Addr) (int, error) {
	c.mu.Lock()
	hold, entered := c.hold, c.entered
	c.hold, c.entered = nil, nil
	c.mu.Unlock()
	if hold != nil {
		close(entered)
		<-hold
	}
	c.mu.Lock()
	defer c.mu.Unlock()
	c.attempts++
	if c.failNext {
		c.failNext = false
		return 0, errors.New("sendmsg: message too long")
	}
	c.n++
	return len(p), nil
}

type vnMetrics struct {
	mu      sync.Mutex
	removed int
}

func (m *vnMetrics) AddUDPNatEntry(clientAddr net.Addr, accessKey string) UDPConnMetrics { return m }
func (m *vnMetrics) AddPacketFromClient(status string, a, b int64)                       {}
func (m *vnMetrics) AddPacketFromTarget(status string, a, b int64)                       {}
func (m *vnMetrics) RemoveNatEntry() {
	m.mu.Lock()
	m.removed++
	m.mu.Unlock()
}

func vnRun(req vnReq) (resp vnResp) {
	defer func() {
		if r := recover(); r != nil {
			resp.Err = "panic"
		}
	}()
	key, err := shadowsocks.NewEncryptionKey(shadowsocks.CHACHA20IETFPOLY1305, "secret")
	if err != nil {
		return vnResp{Err: err.Error()}
	}
	m := &vnMetrics{}
	nm := newNATmap(time.Duration(req.TimeoutMs)*time.Millisecond, m, noopLogger())
	fc := &vnFakeConn{start: time.Now(), wake: make(chan struct{}, 1)}
	cc := &vnClientConn{}
	clientAddr := &net.UDPAddr{IP: net.IPv4(192, 0, 2, 1), Port: 54321}
	entry := nm.Add(clientAddr, cc, key, fc, "key id")
	dnsAddr := &net.UDPAddr{IP: net.IPv4(192, 0, 2, 53), Port: 53}
	webAddr := &net.UDPAddr{IP: net.IPv4(192, 0, 2, 80), Port: 443}
	dnsAddr6 := &net.UDPAddr{IP: net.ParseIP("2001:db8::53"), Port: 53}
	webAddr6 := &net.UDPAddr{IP: net.ParseIP("2001:db8::80"), Port: 443}
	var release func() // finishes a held relay
	for i, op := range req.Ops {
		fc.mu.Lock()
		fc.curOp = i
		fc.mu.Unlock()
		l := vnOpLog{T0Ns: int64(time.Since(fc.start))}
		pending := release
		release = nil
		switch op.Kind {
		case "write":
			to := webAddr
			switch {
			case op.DNS && op.V6:
				to = dnsAddr6
			case op.DNS:
				to = dnsAddr
			case op.V6:
				to = webAddr6
			}
			fc.mu.Lock()
			fc.failNext = op.Fail
			fc.mu.Unlock()
			entry.WriteTo([]byte("payload"), to)
		case "reply":
			from := net.Addr(webAddr)
			switch {
			case op.DNS && op.V6:
				from = dnsAddr6
			case op.DNS:
				from = dnsAddr
			case op.V6:
				from = webAddr6
			}
			before := cc.tried()
			cc.mu.Lock()
			cc.failNext = op.FailRelay
			cc.mu.Unlock()
			relayed := func() {
				for t := time.Now(); cc.tried() == before && time.Since(t) < 2*time.Second; {
					time.Sleep(20 * time.Microsecond)
				}
			}
			var hold, entered chan struct{}
			if op.Hold && i+1 < len(req.Ops) && req.Ops[i+1].Kind == "write" {
				hold, entered = make(chan struct{}), make(chan struct{})
				cc.mu.Lock()
				cc.hold, cc.entered = hold, entered
				cc.mu.Unlock()
			}
			fc.mu.Lock()
			fc.pkts = append(fc.pkts, vnPkt{[]byte("reply"), from})
			fc.mu.Unlock()
			fc.poke()
			if hold != nil {
				// the copy loop is now inside the relay to the client; the next operation happens meanwhile
				select {
				case <-entered:
					release = func() { close(hold); relayed() }
				case <-time.After(2 * time.Second):
					cc.mu.Lock()
					cc.hold, cc.entered = nil, nil
					cc.mu.Unlock()
				}
			} else {
				// wait until the copy loop has relayed it (bounded)
				relayed()
			}
		case "pause":
			time.Sleep(time.Duration(op.Ms) * time.Millisecond)
		}
		if pending != nil {
			pending()
		}
		l.T1Ns = int64(time.Since(fc.start))
		resp.Ops = append(resp.Ops, l)
	}
	if release != nil {
		release()
	}
	// must-not-happen: nothing may have torn the association down yet (unless a fast close did, which the
	// model knows about); a fixed settle time, since absence cannot be awaited
	time.Sleep(2 * time.Millisecond)
	fc.mu.Lock()
	m.mu.Lock()
	resp.GoneEarly = fc.closed || m.removed > 0 || nm.Get(clientAddr.String()) == nil
	m.mu.Unlock()
	fc.mu.Unlock()
	// expire: the next read times out
	fc.mu.Lock()
	fc.curOp = len(req.Ops)
	fc.expire = true
	fc.mu.Unlock()
	fc.poke()
	for t := time.Now(); time.Since(t) < 2*time.Second; {
		if nm.Get(clientAddr.String()) == nil {
			resp.Returned = true
			break
		}
		time.Sleep(50 * time.Microsecond)
	}
	// the entry leaves the table before its socket is closed and its removal... give both a bounded time
	for t := time.Now(); time.Since(t) < 2*time.Second; {
		fc.mu.Lock()
		closed := fc.closed
		fc.mu.Unlock()
		m.mu.Lock()
		removed := m.removed
		m.mu.Unlock()
		if closed && removed > 0 {
			break
		}
		time.Sleep(50 * time.Microsecond)
	}
	time.Sleep(100 * time.Microsecond) // a second removal report, if any, would follow at once
	fc.mu.Lock()
	resp.Deadlines = append([]vnDeadline(nil), fc.log...)
	resp.Closed = fc.closed
	fc.mu.Unlock()
	m.mu.Lock()
	resp.Removed = m.removed
	m.mu.Unlock()
	resp.MapEmpty = nm.Get(clientAddr.String()) == nil
	resp.Replies = cc.count()
	resp.OK = true
	return resp
}

func (c *vnClientConn) tried() int {
	c.mu.Lock()
	defer c.mu.Unlock()
	return c.attempts
}

func (c *vnClientConn) count() int {
	c.mu.Lock()
	defer c.mu.Unlock()
	return c.n
}

var _ = errors.New

// TestVerifNATExecutor is inert unless VERIF_EXEC=1.
func TestVerifNATExecutor(t *testing.T) {
	if os.Getenv("VERIF_EXEC") != "1" {
		t.Skip("executor mode off")
	}
	in := bufio.NewReaderSize(os.Stdin, 1<<20)
	out := json.NewEncoder(os.Stdout)
	for {
		line, err := in.ReadBytes('\n')
		if err != nil {
			return
		}
		var req vnReq
		if err := json.Unmarshal(line, &req); err != nil {
			out.Encode(vnResp{Err: "bad request: " + err.Error()})
			continue
		}
		out.Encode(vnRun(req))
	}
}
