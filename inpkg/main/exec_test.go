// Injected into /repo/cmd/outline-ss-server with `go test -overlay` (see /verif/check).
// A thin interpreter that drives the real RunOutlineServer / loadConfig / Stop from JSON
// lines on stdin and reports what a recording ServiceMetrics wrapper (around the real
// Prometheus collector) saw. No generation, model or oracle lives here.
package main

import (
	"log/slog"
	"context"
	"syscall"
	"bufio"
	"encoding/json"
	"fmt"
	"net"
	"os"
	"runtime"
	"strings"
	"sync"
	"testing"
	"time"

	outline_prometheus "github.com/Jigsaw-Code/outline-ss-server/prometheus"
	"github.com/Jigsaw-Code/outline-ss-server/service"
	"github.com/Jigsaw-Code/outline-ss-server/service/metrics"
	"github.com/prometheus/client_golang/prometheus"
)

type vEvent struct {
	Seq    int    `json:"seq"`
	Kind   string `json:"kind"` // tcp_open tcp_auth tcp_closed tcp_probe udp_add udp_remove udp_from_client udp_from_target search
	Remote string `json:"remote,omitempty"`
	Local  string `json:"local,omitempty"`
	Key    string `json:"key,omitempty"`
	Status string `json:"status,omitempty"`
	Proto  string `json:"proto,omitempty"`
	Found  bool   `json:"found,omitempty"`
	A      int64  `json:"a,omitempty"`
	B      int64  `json:"b,omitempty"`
	C      int64  `json:"c,omitempty"`
	D      int64  `json:"d,omitempty"`
	ConnID int    `json:"conn,omitempty"`
}

type vRecorder struct {
	mu     sync.Mutex
	events []vEvent
	seq    int
	conns  int
	inner  service.ServiceMetrics
}

func (r *vRecorder) add(e vEvent) {
	r.mu.Lock()
	r.seq++
	e.Seq = r.seq
	r.events = append(r.events, e)
	r.mu.Unlock()
}

func (r *vRecorder) drain() []vEvent {
	r.mu.Lock()
	defer r.mu.Unlock()
	out := r.events
	r.events = nil
	return out
}

type vTCP struct {
	r             *vRecorder
	id            int
	remote, local string
	inner         service.TCPConnMetrics
}

func (c *vTCP) AddAuthenticated(key string) {
	c.r.add(vEvent{Kind: "tcp_auth", Remote: c.remote, Local: c.local, Key: key, ConnID: c.id})
	c.inner.AddAuthenticated(key)
}
func (c *vTCP) AddClosed(status string, d metrics.ProxyMetrics, dur time.Duration) {
	c.inner.AddClosed(status, d, dur)
	c.r.add(vEvent{Kind: "tcp_closed", Remote: c.remote, Local: c.local, Status: status, A: d.ClientProxy, B: d.ProxyTarget, C: d.TargetProxy, D: d.ProxyClient, ConnID: c.id})
}
func (c *vTCP) AddProbe(status, drain string, n int64) {
	c.r.add(vEvent{Kind: "tcp_probe", Remote: c.remote, Local: c.local, Status: status, Key: drain, A: n, ConnID: c.id})
	c.inner.AddProbe(status, drain, n)
}

type vUDP struct {
	r      *vRecorder
	id     int
	client string
	inner  service.UDPConnMetrics
}

func (c *vUDP) AddPacketFromClient(status string, a, b int64) {
	c.inner.AddPacketFromClient(status, a, b)
	c.r.add(vEvent{Kind: "udp_from_client", Remote: c.client, Status: status, A: a, B: b, ConnID: c.id})
}
func (c *vUDP) AddPacketFromTarget(status string, a, b int64) {
	c.inner.AddPacketFromTarget(status, a, b)
	c.r.add(vEvent{Kind: "udp_from_target", Remote: c.client, Status: status, A: a, B: b, ConnID: c.id})
}
func (c *vUDP) RemoveNatEntry() {
	c.inner.RemoveNatEntry()
	c.r.add(vEvent{Kind: "udp_remove", Remote: c.client, ConnID: c.id})
}

func (r *vRecorder) AddOpenTCPConnection(conn net.Conn) service.TCPConnMetrics {
	r.mu.Lock()
	r.conns++
	id := r.conns
	r.mu.Unlock()
	c := &vTCP{r: r, id: id, remote: conn.RemoteAddr().String(), local: conn.LocalAddr().String(), inner: r.inner.AddOpenTCPConnection(conn)}
	r.add(vEvent{Kind: "tcp_open", Remote: c.remote, Local: c.local, ConnID: id})
	return c
}
func (r *vRecorder) AddUDPNatEntry(clientAddr net.Addr, key string) service.UDPConnMetrics {
	r.mu.Lock()
	r.conns++
	id := r.conns
	r.mu.Unlock()
	c := &vUDP{r: r, id: id, client: clientAddr.String(), inner: r.inner.AddUDPNatEntry(clientAddr, key)}
	r.add(vEvent{Kind: "udp_add", Remote: c.client, Key: key, ConnID: id})
	return c
}
func (r *vRecorder) AddCipherSearch(proto string, found bool, d time.Duration) {
	r.inner.AddCipherSearch(proto, found, d)
	r.add(vEvent{Kind: "search", Proto: proto, Found: found})
}

type vCmd struct {
	Cmd           string `json:"cmd"`
	Config        string `json:"config,omitempty"`
	ReplayHistory int    `json:"replay_history,omitempty"`
	NatTimeoutMs  int    `json:"nat_timeout_ms,omitempty"`
	Port          int    `json:"port,omitempty"`
	UDP           bool   `json:"udp,omitempty"`
}

type vResp struct {
	OK         bool               `json:"ok"`
	Err        string             `json:"err,omitempty"`
	Events     []vEvent           `json:"events,omitempty"`
	Goroutines int                `json:"goroutines,omitempty"`
	Stacks     []string           `json:"stacks,omitempty"`
	Sockets    int                `json:"sockets,omitempty"`
	Gathered   map[string]float64 `json:"gathered,omitempty"`
}

func vRepoGoroutines() []string {
	buf := make([]byte, 8<<20)
	n := runtime.Stack(buf, true)
	var out []string
	for _, g := range strings.Split(string(buf[:n]), "\n\n") {
		if strings.Contains(g, "github.com/Jigsaw-Code/outline-ss-server/") && !strings.Contains(g, "TestVerifExecutor") && !strings.Contains(g, "RunOutlineServer.func1") {
			out = append(out, g)
		}
	}
	return out
}

func vSockets() int {
	ents, _ := os.ReadDir("/proc/self/fd")
	n := 0
	for _, e := range ents {
		if l, err := os.Readlink("/proc/self/fd/" + e.Name()); err == nil && strings.HasPrefix(l, "socket:") {
			n++
		}
	}
	return n
}

// TestVerifExecutor is inert unless VERIF_EXEC=1.
// vLogTap records the messages the server logs (the outcome of a SIGHUP-triggered reload is only visible there).
type vLogTap struct {
	mu   sync.Mutex
	msgs []string
}

func (h *vLogTap) Enabled(context.Context, slog.Level) bool { return true }
func (h *vLogTap) Handle(_ context.Context, r slog.Record) error {
	msg := r.Message
	r.Attrs(func(a slog.Attr) bool {
		if a.Key == "err" {
			msg += " err=" + a.Value.String()
		}
		return true
	})
	h.mu.Lock()
	h.msgs = append(h.msgs, msg)
	h.mu.Unlock()
	return nil
}
func (h *vLogTap) WithAttrs([]slog.Attr) slog.Handler { return h }
func (h *vLogTap) WithGroup(string) slog.Handler      { return h }
func (h *vLogTap) since(n int) []string {
	h.mu.Lock()
	defer h.mu.Unlock()
	return append([]string(nil), h.msgs[n:]...)
}

func TestVerifExecutor(t *testing.T) {
	if os.Getenv("VERIF_EXEC") != "1" {
		t.Skip("executor mode off")
	}
	tap := &vLogTap{}
	slog.SetDefault(slog.New(tap))
	in := bufio.NewReaderSize(os.Stdin, 1<<20)
	out := json.NewEncoder(os.Stdout)
	var server *OutlineServer
	var rec *vRecorder
	var reg *prometheus.Registry
	for {
		line, err := in.ReadBytes('\n')
		if err != nil {
			return
		}
		var cmd vCmd
		if err := json.Unmarshal(line, &cmd); err != nil {
			out.Encode(vResp{Err: "bad command: " + err.Error()})
			continue
		}
		var resp vResp
		switch cmd.Cmd {
		case "run":
			sm, err := outline_prometheus.NewServiceMetrics(nil)
			if err != nil {
				resp.Err = err.Error()
				break
			}
			reg = prometheus.NewRegistry()
			reg.MustRegister(sm)
			rec = &vRecorder{inner: sm}
			nat := time.Duration(cmd.NatTimeoutMs) * time.Millisecond
			if nat == 0 {
				nat = defaultNatTimeout
			}
			server, err = RunOutlineServer(cmd.Config, nat, newPrometheusServerMetrics(), rec, cmd.ReplayHistory)
			if err != nil {
				resp.Err = err.Error()
			} else {
				resp.OK = true
			}
		case "reload":
			if server == nil {
				resp.Err = "no server"
				break
			}
			if err := server.loadConfig(cmd.Config); err != nil {
				resp.Err = err.Error()
			} else {
				resp.OK = true
			}
		case "sighup":
			// the production trigger of a reload: the server re-reads the file it was started with
			n0 := len(tap.since(0))
			if err := syscall.Kill(os.Getpid(), syscall.SIGHUP); err != nil {
				resp.Err = err.Error()
				break
			}
			// the handler logs the outcome: "Loaded config." or "Failed to update server..."
			resp.Err = "no outcome logged"
			for t0 := time.Now(); time.Since(t0) < 10*time.Second && resp.Err == "no outcome logged"; time.Sleep(time.Millisecond) {
				for _, m := range tap.since(n0) {
					if strings.HasPrefix(m, "Loaded config") {
						resp.OK, resp.Err = true, ""
					} else if strings.HasPrefix(m, "Failed to update server") {
						resp.Err = "reload failed (logged): " + m
					}
				}
			}
		case "stop":
			if server == nil {
				resp.Err = "no server"
				break
			}
			if err := server.Stop(); err != nil {
				resp.Err = err.Error()
			} else {
				resp.OK = true
			}
		case "events":
			resp.OK = true
			if rec != nil {
				resp.Events = rec.drain()
			}
		case "resources":
			resp.OK = true
			st := vRepoGoroutines()
			resp.Goroutines = len(st)
			if len(st) > 6 {
				st = st[:6]
			}
			resp.Stacks = st
			resp.Sockets = vSockets()
		case "gather":
			resp.OK = true
			resp.Gathered = map[string]float64{}
			if reg != nil {
				mfs, err := reg.Gather()
				if err != nil {
					resp.OK, resp.Err = false, err.Error()
				}
				for _, mf := range mfs {
					for _, m := range mf.GetMetric() {
						k := mf.GetName()
						for _, l := range m.GetLabel() {
							k += fmt.Sprintf("|%s=%s", l.GetName(), l.GetValue())
						}
						if m.Counter != nil {
							resp.Gathered[k] = m.Counter.GetValue()
						}
					}
				}
			}
		case "owns_port":
			resp.OK = vOwnsPort(cmd.UDP, cmd.Port)
		case "quit":
			out.Encode(vResp{OK: true})
			return
		default:
			resp.Err = "unknown command"
		}
		out.Encode(resp)
	}
}

// vOwnsPort reports whether a socket of this process is bound to the port.
func vOwnsPort(udp bool, port int) bool {
	mine := map[string]bool{}
	ents, _ := os.ReadDir("/proc/self/fd")
	for _, e := range ents {
		if l, err := os.Readlink("/proc/self/fd/" + e.Name()); err == nil && strings.HasPrefix(l, "socket:[") {
			mine[strings.TrimSuffix(strings.TrimPrefix(l, "socket:["), "]")] = true
		}
	}
	files := []string{"/proc/self/net/tcp", "/proc/self/net/tcp6"}
	if udp {
		files = []string{"/proc/self/net/udp", "/proc/self/net/udp6"}
	}
	for _, f := range files {
		b, err := os.ReadFile(f)
		if err != nil {
			continue
		}
		for i, line := range strings.Split(string(b), "\n") {
			fs := strings.Fields(line)
			if i == 0 || len(fs) < 10 {
				continue
			}
			j := strings.LastIndexByte(fs[1], ':')
			var p int
			fmt.Sscanf(fs[1][j+1:], "%X", &p)
			// listening TCP sockets (state 0A) or any bound UDP socket
			if p == port && mine[fs[9]] && (udp || fs[3] == "0A") {
				return true
			}
		}
	}
	return false
}
