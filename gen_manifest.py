#!/usr/bin/env python3
"""Writes MANIFEST.json from checks_table.py + manifest_text.py (kept in one place so the manifest stays valid)."""
import json, os, sys
sys.path.insert(0, os.path.dirname(os.path.abspath(__file__)))
from checks_table import CHECKS
from manifest_text import TEXT, NOT_APPLICABLE, HOOK_COMMITS

checks = []
for pid in sorted(CHECKS):
    t = TEXT[pid]
    checks.append({
        "property_id": pid,
        "quick_cmd": "./check %s --tier quick" % pid,
        "thorough_cmd": "./check %s --tier thorough" % pid,
        "evidence_file": "/verif/evidence/%s.json" % pid,
        "replay_cmd_template": "./check %s --replay {path}" % pid,
        "engine": ", ".join(sorted({u["bin"] for u in CHECKS[pid]["units"]})),
        "level_claimed": {"category": CHECKS[pid]["level"], "text": t["level_text"], "design_ref": "DESIGN.md §3 " + pid},
        "level_note": t["level_note"],
        "technique": t["technique"],
    })
m = {
    "version": 1,
    "setup_cmd": "./setup.sh",
    "hooks": {
        "guard": "verif",
        "enable": "checks build with `-tags verif`; no source hook in /repo is needed: in-package executors are injected from /verif/inpkg with `go test -overlay`",
        "baseline_off_cmd": "cd /repo && GOFLAGS=-mod=mod GOPROXY=off GOSUMDB=off go test -vet=off -count=1 -timeout 25m ./...",
        "source_commits": HOOK_COMMITS,
        "add_only": True,
    },
    "engines": [
        {"name": "props", "path": "/verif/harness", "serves_properties": sorted(p for p in CHECKS if any(u["bin"].startswith("props") and u["bin"] != "props26" for u in CHECKS[p]["units"])), "kind_free_text": "rapid v1.3.0 property tests (Go module with replace => /repo), real service/net/prometheus/ipinfo packages over loopback sockets or in-memory conns"},
        {"name": "props26", "path": "/verif/harness26", "serves_properties": sorted(p for p in CHECKS if any(u["bin"] == "props26" for u in CHECKS[p]["units"])), "kind_free_text": "rapid + testing/synctest (go1.26.8) fake-time property tests"},
        {"name": "inpkg", "path": "/verif/inpkg", "serves_properties": sorted(p for p in CHECKS if any("inpkg" in b for u in CHECKS[p]["units"] for b in [u["bin"]] + u.get("needs", []))), "kind_free_text": "in-package executors for package main / service internals injected via go test -overlay, driven by rapid properties as child processes"},
    ],
    "checks": checks,
    "not_applicable": NOT_APPLICABLE,
    "notes": "Technique family: property-based testing and fuzzing (rapid v1.3.0, native go fuzz in the thorough tier). See DESIGN.md.",
}
json.dump(m, open(os.path.join(os.path.dirname(os.path.abspath(__file__)), "MANIFEST.json"), "w"), indent=1)
print("wrote MANIFEST.json with", len(checks), "checks")
