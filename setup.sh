#!/bin/sh
# Builds every harness binary once from files on disk (warms the Go build cache), offline.
set -e
cd "$(dirname "$0")"
export GOFLAGS=-mod=mod GOPROXY=off GOSUMDB=off GOTOOLCHAIN=local
mkdir -p out evidence
./check --build-all
echo setup ok
