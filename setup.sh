#!/bin/sh
# Builds the harness binaries once (warms the Go build cache), offline.
set -e
cd "$(dirname "$0")"
export GOFLAGS=-mod=mod GOPROXY=off GOSUMDB=off GOTOOLCHAIN=local
mkdir -p out evidence
cat /repo/go.sum > harness/go.sum
[ -f harness/go.sum.extra ] && cat harness/go.sum.extra >> harness/go.sum
(cd harness && go test -c -tags verif -o ../out/props.test ./props)
echo setup ok
