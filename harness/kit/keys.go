package kit

import (
	"container/list"
	"fmt"
	"strings"

	"github.com/Jigsaw-Code/outline-sdk/transport/shadowsocks"
	"github.com/Jigsaw-Code/outline-ss-server/service"
	"pgregory.net/rapid"
)

// KeySpec is one configured access key.
type KeySpec struct {
	ID     string `json:"id"`
	Cipher string `json:"cipher"`
	Secret string `json:"secret"`
}

func (k KeySpec) Key() *Key        { return NewKey(k.Cipher, k.Secret) }
func (k KeySpec) Material() string { return k.Key().Material() }

// CipherEntries builds the *list.List the server's CipherList.Update expects.
func CipherEntries(keys []KeySpec) *list.List {
	l := list.New()
	for _, k := range keys {
		ck, err := shadowsocks.NewEncryptionKey(k.Cipher, k.Secret)
		if err != nil {
			panic(fmt.Sprintf("bad key spec %+v: %v", k, err))
		}
		e := service.MakeCipherEntry(k.ID, ck, k.Secret)
		l.PushBack(&e)
	}
	return l
}

// NewCipherList builds a server CipherList with these keys in order.
func NewCipherList(keys []KeySpec) service.CipherList {
	cl := service.NewCipherList()
	cl.Update(CipherEntries(keys))
	return cl
}

// GenKeyUniverse draws n..m keys with distinct IDs, all four ciphers, and
// deliberate duplicates: same material under two IDs, same secret under two ciphers.
func GenKeyUniverse(t *rapid.T, minN, maxN int) []KeySpec {
	n := rapid.IntRange(minN, maxN).Draw(t, "nkeys")
	keys := make([]KeySpec, 0, n)
	for i := 0; i < n; i++ {
		k := KeySpec{ID: fmt.Sprintf("k%d", i)}
		mode := 0
		if i > 0 {
			mode = rapid.SampledFrom([]int{0, 0, 0, 0, 1, 2, 3}).Draw(t, "dupmode")
		}
		switch mode {
		case 1: // same material as an earlier key
			j := rapid.IntRange(0, i-1).Draw(t, "dupof")
			k.Cipher, k.Secret = keys[j].Cipher, keys[j].Secret
		case 3: // same cipher, a secret that differs from an earlier one only in letter case: a different key
			j := rapid.IntRange(0, i-1).Draw(t, "dupof")
			k.Cipher = keys[j].Cipher
			k.Secret = strings.Map(func(r rune) rune {
				switch {
				case r >= 'a' && r <= 'z':
					return r - 32
				case r >= 'A' && r <= 'Z':
					return r + 32
				}
				return r
			}, keys[j].Secret)
		case 2: // same secret, other cipher
			j := rapid.IntRange(0, i-1).Draw(t, "dupof")
			k.Secret = keys[j].Secret
			k.Cipher = rapid.SampledFrom(AllCiphers).Draw(t, "cipher")
		default:
			k.Cipher = rapid.SampledFrom(AllCiphers).Draw(t, "cipher")
			k.Secret = fmt.Sprintf("s%d-%d", i, rapid.IntRange(0, 9999).Draw(t, "secret"))
		}
		keys = append(keys, k)
	}
	return keys
}

// IDsWithMaterial returns the ids in keys whose material equals m.
func IDsWithMaterial(keys []KeySpec, m string) map[string]bool {
	out := map[string]bool{}
	for _, k := range keys {
		if k.Material() == m {
			out[k.ID] = true
		}
	}
	return out
}
