package kit

// execproc.go: client side of the in-package executor (package main of the server,
// built by ./check with `go test -overlay`), which runs as a separate process.

import (
	"bufio"
	"encoding/json"
	"errors"
	"fmt"
	"io"
	"os"
	"os/exec"
	"sync"
	"time"
)

type ExecEvent struct {
	Seq    int    `json:"seq"`
	Kind   string `json:"kind"`
	Remote string `json:"remote"`
	Local  string `json:"local"`
	Key    string `json:"key"`
	Status string `json:"status"`
	Proto  string `json:"proto"`
	Found  bool   `json:"found"`
	A      int64  `json:"a"`
	B      int64  `json:"b"`
	C      int64  `json:"c"`
	D      int64  `json:"d"`
	Conn   int    `json:"conn"`
}

type ExecResp struct {
	OK         bool               `json:"ok"`
	Err        string             `json:"err"`
	Events     []ExecEvent        `json:"events"`
	Goroutines int                `json:"goroutines"`
	Stacks     []string           `json:"stacks"`
	Sockets    int                `json:"sockets"`
	Gathered   map[string]float64 `json:"gathered"`
}

// ErrExecDied means the executor process (i.e. the server under test) exited.
var ErrExecDied = errors.New("executor process died")

type Exec struct {
	cmd        *exec.Cmd
	in         io.WriteCloser
	out        *bufio.Reader
	mu         sync.Mutex
	Events     []ExecEvent // everything drained so far
	stderr     *os.File
	StderrPath string
}

// StartExec launches the executor binary named by env (e.g. VERIF_BIN_INPKG_MAIN).
func StartExec(envName, testName string) (*Exec, error) {
	bin := os.Getenv(envName)
	if bin == "" {
		return nil, fmt.Errorf("%s not set", envName)
	}
	cmd := exec.Command(bin, "-test.run", "^"+testName+"$", "-test.timeout", "0")
	cmd.Env = append(os.Environ(), "VERIF_EXEC=1", "GOTRACEBACK=all")
	in, err := cmd.StdinPipe()
	if err != nil {
		return nil, err
	}
	outp, err := cmd.StdoutPipe()
	if err != nil {
		return nil, err
	}
	f, _ := os.CreateTemp(OutDir("exec"), "stderr-*")
	cmd.Stderr = f
	if err := cmd.Start(); err != nil {
		return nil, err
	}
	e := &Exec{cmd: cmd, in: in, out: bufio.NewReaderSize(outp, 1<<20), stderr: f}
	if f != nil {
		e.StderrPath = f.Name()
	}
	return e, nil
}

// Do sends one command and waits for the response.
func (e *Exec) Do(cmd map[string]any, timeout time.Duration) (*ExecResp, error) {
	b, _ := json.Marshal(cmd)
	line, err := e.DoRaw(b, timeout)
	if err != nil {
		return nil, err
	}
	var r ExecResp
	if err := json.Unmarshal(line, &r); err != nil {
		return nil, fmt.Errorf("bad executor response: %v", err)
	}
	return &r, nil
}

// DoRaw sends one JSON line and returns the next JSON line the executor prints.
func (e *Exec) DoRaw(req []byte, timeout time.Duration) ([]byte, error) {
	e.mu.Lock()
	defer e.mu.Unlock()
	if _, err := e.in.Write(append(append([]byte(nil), req...), '\n')); err != nil {
		return nil, ErrExecDied
	}
	type res struct {
		line []byte
		err  error
	}
	ch := make(chan res, 1)
	go func() {
		for {
			line, err := e.out.ReadBytes('\n')
			if err != nil {
				ch <- res{nil, ErrExecDied}
				return
			}
			if len(line) == 0 || line[0] != '{' {
				continue // test framework chatter
			}
			ch <- res{line, nil}
			return
		}
	}()
	select {
	case r := <-ch:
		return r.line, r.err
	case <-time.After(timeout):
		return nil, fmt.Errorf("executor did not answer within %v", timeout)
	}
}

// Drain fetches new events and appends them to e.Events.
func (e *Exec) Drain() error {
	r, err := e.Do(map[string]any{"cmd": "events"}, 10*time.Second)
	if err != nil {
		return err
	}
	e.Events = append(e.Events, r.Events...)
	return nil
}

// WaitEvent polls until pred matches an event (searching from index `from`) or the timeout passes.
func (e *Exec) WaitEvent(from int, timeout time.Duration, pred func(ExecEvent) bool) (int, bool, error) {
	deadline := time.Now().Add(timeout)
	sleep := 200 * time.Microsecond
	for {
		if err := e.Drain(); err != nil {
			return -1, false, err
		}
		for i := from; i < len(e.Events); i++ {
			if pred(e.Events[i]) {
				return i, true, nil
			}
		}
		if time.Now().After(deadline) {
			return -1, false, nil
		}
		time.Sleep(sleep)
		if sleep < 5*time.Millisecond {
			sleep *= 2
		}
	}
}

// Stderr returns the tail of the executor's stderr.
func (e *Exec) Stderr(max int) string {
	if e.StderrPath == "" {
		return ""
	}
	b, _ := os.ReadFile(e.StderrPath)
	if len(b) > max {
		b = b[len(b)-max:]
	}
	return string(b)
}

// Kill terminates the executor.
func (e *Exec) Kill() {
	e.in.Close()
	done := make(chan struct{})
	go func() { e.cmd.Wait(); close(done) }()
	select {
	case <-done:
	case <-time.After(500 * time.Millisecond):
		e.cmd.Process.Kill()
		<-done
	}
	if e.stderr != nil {
		e.stderr.Close()
		os.Remove(e.StderrPath)
	}
}
