package kit

// addrclass.go: the address oracle for C05 — IANA special-purpose registries as
// prefix tables, independent of the code under test.

import "net/netip"

type AddrClass int

const (
	Unspecified AddrClass = iota // not judged: special-purpose blocks the statement does not name
	MustReject
	MustAccept
)

func pfx(ss ...string) []netip.Prefix {
	out := make([]netip.Prefix, len(ss))
	for i, s := range ss {
		out[i] = netip.MustParsePrefix(s)
	}
	return out
}

// Blocks the property statement names (loopback, unspecified, link-local, multicast,
// broadcast, RFC 1918, CGNAT, IPv6 unique-local).
var RejectV4 = pfx("127.0.0.0/8", "0.0.0.0/32", "169.254.0.0/16", "224.0.0.0/4", "255.255.255.255/32",
	"10.0.0.0/8", "172.16.0.0/12", "192.168.0.0/16", "100.64.0.0/10")
var RejectV6 = pfx("::1/128", "::/128", "fe80::/10", "ff00::/8", "fc00::/7")

// Other special-purpose blocks (IANA IPv4/IPv6 special-purpose address registries): not judged.
var OtherSpecialV4 = pfx("0.0.0.0/8", "192.0.0.0/24", "192.0.2.0/24", "192.31.196.0/24", "192.52.193.0/24", "192.88.99.0/24",
	"192.175.48.0/24", "198.18.0.0/15", "198.51.100.0/24", "203.0.113.0/24", "240.0.0.0/4")
var OtherSpecialV6 = pfx("64:ff9b::/96", "64:ff9b:1::/48", "100::/64", "2001::/23", "2001:db8::/32", "2002::/16", "2620:4f:8000::/48", "fec0::/10", "3fff::/20", "5f00::/16")
var GlobalV6 = netip.MustParsePrefix("2000::/3")

func inAny(a netip.Addr, ps []netip.Prefix) bool {
	for _, p := range ps {
		if p.Contains(a) {
			return true
		}
	}
	return false
}

// Classify returns the class of an address by the statement alone. IPv4-mapped IPv6
// addresses take the class of the embedded IPv4 address.
func Classify(a netip.Addr) AddrClass {
	a = a.WithZone("")
	if a.Is4In6() {
		a = a.Unmap()
	}
	if a.Is4() {
		switch {
		case inAny(a, RejectV4):
			return MustReject
		case inAny(a, OtherSpecialV4):
			return Unspecified
		}
		return MustAccept
	}
	switch {
	case inAny(a, RejectV6):
		return MustReject
	case inAny(a, OtherSpecialV6):
		return Unspecified
	case GlobalV6.Contains(a):
		return MustAccept
	}
	return Unspecified // unallocated space
}

// V4Range is an inclusive range of IPv4 addresses with one class.
type V4Range struct {
	Lo, Hi uint32
	Class  AddrClass
}

// V4Ranges partitions the whole IPv4 space into maximal ranges of equal class.
func V4Ranges() []V4Range {
	// boundaries: every prefix start and end+1
	cuts := map[uint64]bool{0: true, 1 << 32: true}
	for _, ps := range [][]netip.Prefix{RejectV4, OtherSpecialV4} {
		for _, p := range ps {
			b := p.Addr().As4()
			lo := uint64(b[0])<<24 | uint64(b[1])<<16 | uint64(b[2])<<8 | uint64(b[3])
			cuts[lo] = true
			cuts[lo+1<<(32-p.Bits())] = true
		}
	}
	var cs []uint64
	for c := range cuts {
		cs = append(cs, c)
	}
	sortU64(cs)
	var out []V4Range
	for i := 0; i+1 < len(cs); i++ {
		lo := uint32(cs[i])
		cl := Classify(netip.AddrFrom4([4]byte{byte(lo >> 24), byte(lo >> 16), byte(lo >> 8), byte(lo)}))
		if n := len(out); n > 0 && out[n-1].Class == cl {
			out[n-1].Hi = uint32(cs[i+1] - 1)
			continue
		}
		out = append(out, V4Range{lo, uint32(cs[i+1] - 1), cl})
	}
	return out
}

func sortU64(a []uint64) {
	for i := 1; i < len(a); i++ {
		for j := i; j > 0 && a[j] < a[j-1]; j-- {
			a[j], a[j-1] = a[j-1], a[j]
		}
	}
}
