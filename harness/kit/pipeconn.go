package kit

// pipeconn.go: an in-memory full-duplex StreamConn pair with independent
// half-close and deadlines (built on two net.Pipe pairs, so it works under
// testing/synctest fake time).

import (
	"net"
	"sync/atomic"
	"time"

	"github.com/Jigsaw-Code/outline-sdk/transport"
)

type DuplexEnd struct {
	r, w   net.Conn // r: we read from; w: we write to
	remote net.Addr
	local  net.Addr
	RBytes atomic.Int64
	WBytes atomic.Int64
}

var _ transport.StreamConn = (*DuplexEnd)(nil)

// NewDuplexPair returns (client end, server end). remote is what the server end reports as RemoteAddr.
func NewDuplexPair(clientAddr net.Addr) (*DuplexEnd, *DuplexEnd) {
	c2sR, c2sW := net.Pipe() // client writes c2sW, server reads c2sR
	s2cR, s2cW := net.Pipe() // server writes s2cW, client reads s2cR
	srvAddr := &net.TCPAddr{IP: net.IPv4(127, 0, 0, 1), Port: 9000}
	return &DuplexEnd{r: s2cR, w: c2sW, remote: srvAddr, local: clientAddr}, &DuplexEnd{r: c2sR, w: s2cW, remote: clientAddr, local: srvAddr}
}

func (d *DuplexEnd) Read(b []byte) (int, error) {
	n, err := d.r.Read(b)
	d.RBytes.Add(int64(n))
	return n, err
}
func (d *DuplexEnd) Write(b []byte) (int, error) {
	n, err := d.w.Write(b)
	d.WBytes.Add(int64(n))
	return n, err
}
func (d *DuplexEnd) Close() error         { d.r.Close(); return d.w.Close() }
func (d *DuplexEnd) CloseRead() error     { return d.r.Close() }
func (d *DuplexEnd) CloseWrite() error    { return d.w.Close() }
func (d *DuplexEnd) LocalAddr() net.Addr  { return d.local }
func (d *DuplexEnd) RemoteAddr() net.Addr { return d.remote }
func (d *DuplexEnd) SetDeadline(t time.Time) error {
	d.r.SetReadDeadline(t)
	return d.w.SetWriteDeadline(t)
}
func (d *DuplexEnd) SetReadDeadline(t time.Time) error  { return d.r.SetReadDeadline(t) }
func (d *DuplexEnd) SetWriteDeadline(t time.Time) error { return d.w.SetWriteDeadline(t) }
