package kit

// udpkit.go: UDP peers (clients / targets) with receive queues, and a real
// PacketHandler front on a real socket.

import (
	"net"
	"sync"
	"time"

	"github.com/Jigsaw-Code/outline-ss-server/service"
)

type Datagram struct {
	Data []byte
	From *net.UDPAddr
	At   time.Time
}

// UDPPeer is a UDP socket with a reader goroutine and a queue of received datagrams.
type UDPPeer struct {
	C    *net.UDPConn
	Addr *net.UDPAddr
	mu   sync.Mutex
	q    []Datagram
	sig  chan struct{}
}

func NewUDPPeer(ip string, port int) (*UDPPeer, error) {
	a := &net.UDPAddr{IP: net.ParseIP(ip), Port: port}
	if i := indexByte(ip, '%'); i >= 0 {
		a = &net.UDPAddr{IP: net.ParseIP(ip[:i]), Zone: ip[i+1:], Port: port}
	}
	c, err := net.ListenUDP("udp", a)
	if err != nil {
		return nil, err
	}
	p := &UDPPeer{C: c, Addr: c.LocalAddr().(*net.UDPAddr), sig: make(chan struct{}, 1)}
	go func() {
		buf := make([]byte, 70000)
		for {
			n, from, err := c.ReadFromUDP(buf)
			if err != nil {
				return
			}
			p.mu.Lock()
			p.q = append(p.q, Datagram{append([]byte(nil), buf[:n]...), from, time.Now()})
			p.mu.Unlock()
			select {
			case p.sig <- struct{}{}:
			default:
			}
		}
	}()
	return p, nil
}

func indexByte(s string, b byte) int {
	for i := 0; i < len(s); i++ {
		if s[i] == b {
			return i
		}
	}
	return -1
}

// Pop removes and returns the oldest queued datagram, waiting up to d.
func (p *UDPPeer) Pop(d time.Duration) (Datagram, bool) {
	deadline := time.Now().Add(d)
	for {
		p.mu.Lock()
		if len(p.q) > 0 {
			g := p.q[0]
			p.q = p.q[1:]
			p.mu.Unlock()
			return g, true
		}
		p.mu.Unlock()
		rem := time.Until(deadline)
		if rem <= 0 {
			return Datagram{}, false
		}
		select {
		case <-p.sig:
		case <-time.After(rem):
		}
	}
}

// Drain returns and clears everything queued.
func (p *UDPPeer) Drain() []Datagram {
	p.mu.Lock()
	defer p.mu.Unlock()
	q := p.q
	p.q = nil
	return q
}

func (p *UDPPeer) Queued() int {
	p.mu.Lock()
	defer p.mu.Unlock()
	return len(p.q)
}

func (p *UDPPeer) Send(b []byte, to *net.UDPAddr) error {
	_, err := p.C.WriteToUDP(b, to)
	return err
}

func (p *UDPPeer) Close() { p.C.Close() }

// UDPFront runs a real PacketHandler on a real socket.
type UDPFront struct {
	C    *net.UDPConn
	Addr *net.UDPAddr
	done chan struct{}
}

func ServeUDP(ip string, h service.PacketHandler) (*UDPFront, error) {
	c, err := net.ListenUDP("udp", &net.UDPAddr{IP: net.ParseIP(ip)})
	if err != nil {
		return nil, err
	}
	f := &UDPFront{C: c, Addr: c.LocalAddr().(*net.UDPAddr), done: make(chan struct{})}
	go func() {
		h.Handle(c)
		close(f.done)
	}()
	return f, nil
}

// Close closes the socket and waits (bounded) for Handle to return.
func (f *UDPFront) Close(wait time.Duration) bool {
	f.C.Close()
	select {
	case <-f.done:
		return true
	case <-time.After(wait):
		return false
	}
}

// PermitAll is a target IP validator that allows everything.
func PermitAll(net.IP) error { return nil }
