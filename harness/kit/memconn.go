package kit

// memconn.go: in-memory transport.StreamConn with a chosen remote address,
// scripted input and recorded output, for cases where socket semantics are
// irrelevant; plus a recording StreamDialer.

import (
	"bytes"
	"context"
	"errors"
	"io"
	"math/rand"
	"net"
	"sync"
	"time"

	"github.com/Jigsaw-Code/outline-sdk/transport"
)

// DetBytes returns n bytes that are a pure function of seed.
func DetBytes(seed int64, n int) []byte {
	b := make([]byte, n)
	rand.New(rand.NewSource(seed)).Read(b)
	return b
}

// MemConn is a scripted in-memory StreamConn. Read returns the script, then
// EOF (or blocks until Close when HoldOpen is set).
type MemConn struct {
	mu       sync.Mutex
	in       *bytes.Reader
	Written  bytes.Buffer
	Remote   net.Addr
	Local    net.Addr
	HoldOpen bool
	// ReadMax > 0: a Read returns at most this many bytes. EOFWithData: the Read that returns the last bytes of the
	// script returns io.EOF with them (io.Reader allows it; *net.TCPConn never does it, other StreamConns do).
	ReadMax     int
	EOFWithData bool
	closed      chan struct{}
	once     sync.Once
	// bookkeeping
	ReadEOF     bool
	ClosedRead  bool
	ClosedWrite bool
	Closed      bool
	WriteCalls  int
	BytesRead   int
	// write position at which CloseWrite happened (-1 if not)
	CloseWriteAt int
}

var _ transport.StreamConn = (*MemConn)(nil)

func NewMemConn(script []byte, remote net.Addr) *MemConn {
	return &MemConn{in: bytes.NewReader(script), Remote: remote, Local: &net.TCPAddr{IP: net.IPv4(127, 0, 0, 1), Port: 9000}, closed: make(chan struct{}), CloseWriteAt: -1}
}

func (c *MemConn) Read(b []byte) (int, error) {
	c.mu.Lock()
	if c.Closed || c.ClosedRead {
		c.mu.Unlock()
		return 0, net.ErrClosed
	}
	if c.ReadMax > 0 && len(b) > c.ReadMax {
		b = b[:c.ReadMax]
	}
	n, err := c.in.Read(b)
	if err == nil && n > 0 && c.in.Len() == 0 && c.EOFWithData && !c.HoldOpen {
		err = io.EOF
	}
	c.BytesRead += n
	if err == io.EOF {
		if c.HoldOpen {
			c.mu.Unlock()
			<-c.closed
			return 0, net.ErrClosed
		}
		c.ReadEOF = true
	}
	c.mu.Unlock()
	return n, err
}

func (c *MemConn) Write(b []byte) (int, error) {
	c.mu.Lock()
	defer c.mu.Unlock()
	if c.Closed || c.ClosedWrite {
		return 0, errors.New("memconn: write after close")
	}
	c.WriteCalls++
	return c.Written.Write(b)
}

func (c *MemConn) Close() error {
	c.mu.Lock()
	c.Closed = true
	c.mu.Unlock()
	c.once.Do(func() { close(c.closed) })
	return nil
}
func (c *MemConn) CloseRead() error {
	c.mu.Lock()
	c.ClosedRead = true
	c.mu.Unlock()
	return nil
}
func (c *MemConn) CloseWrite() error {
	c.mu.Lock()
	if !c.ClosedWrite {
		c.ClosedWrite = true
		c.CloseWriteAt = c.Written.Len()
	}
	c.mu.Unlock()
	return nil
}
func (c *MemConn) LocalAddr() net.Addr                { return c.Local }
func (c *MemConn) RemoteAddr() net.Addr               { return c.Remote }
func (c *MemConn) SetDeadline(t time.Time) error      { return nil }
func (c *MemConn) SetReadDeadline(t time.Time) error  { return nil }
func (c *MemConn) SetWriteDeadline(t time.Time) error { return nil }

// Output returns a copy of everything written so far.
func (c *MemConn) Output() []byte {
	c.mu.Lock()
	defer c.mu.Unlock()
	return append([]byte(nil), c.Written.Bytes()...)
}

// RecDialer records dials and hands out MemConns with a scripted response.
type RecDialer struct {
	mu       sync.Mutex
	Dials    []string
	Conns    []*MemConn
	Response func(addr string) ([]byte, error) // nil: empty response
	// applied to the conns handed out (see MemConn)
	ReadMax     int
	EOFWithData bool
}

func (d *RecDialer) DialStream(ctx context.Context, addr string) (transport.StreamConn, error) {
	d.mu.Lock()
	defer d.mu.Unlock()
	d.Dials = append(d.Dials, addr)
	var resp []byte
	if d.Response != nil {
		var err error
		if resp, err = d.Response(addr); err != nil {
			return nil, err
		}
	}
	c := NewMemConn(resp, &net.TCPAddr{IP: net.IPv4(192, 0, 2, 99), Port: 80})
	c.ReadMax, c.EOFWithData = d.ReadMax, d.EOFWithData
	d.Conns = append(d.Conns, c)
	return c, nil
}

func (d *RecDialer) NumDials() int {
	d.mu.Lock()
	defer d.mu.Unlock()
	return len(d.Dials)
}

// GatedConn is a MemConn whose first Read blocks until Open is called: a client that has connected but
// whose first bytes are still on their way.
type GatedConn struct {
	*MemConn
	gate    chan struct{}
	waiting chan struct{}
	once    sync.Once
	wonce   sync.Once
}

func NewGatedConn(script []byte, remote net.Addr) *GatedConn {
	return &GatedConn{MemConn: NewMemConn(script, remote), gate: make(chan struct{}), waiting: make(chan struct{})}
}

func (g *GatedConn) Read(b []byte) (int, error) {
	g.wonce.Do(func() { close(g.waiting) })
	<-g.gate
	return g.MemConn.Read(b)
}

// Waiting is closed once the code under test has started to read.
func (g *GatedConn) Waiting() <-chan struct{} { return g.waiting }

// Open lets the bytes through.
func (g *GatedConn) Open() { g.once.Do(func() { close(g.gate) }) }
