// Package kit is the shared library of the verification harness.
//
// sscodec.go: an independent implementation of the Shadowsocks AEAD stream and
// packet formats (https://shadowsocks.org/doc/aead.html). It deliberately does
// not import the outline SDK so that the server's trial decryption is never
// compared with itself.
package kit

import (
	"crypto/aes"
	"crypto/cipher"
	"crypto/md5"
	"crypto/sha1"
	"encoding/binary"
	"errors"
	"fmt"
	"io"
	"net"
	"net/netip"
	"strconv"
	"strings"

	"golang.org/x/crypto/chacha20poly1305"
	"golang.org/x/crypto/hkdf"
)

// Cipher names as accepted by the server's configuration.
const (
	Chacha = "chacha20-ietf-poly1305"
	AES256 = "aes-256-gcm"
	AES192 = "aes-192-gcm"
	AES128 = "aes-128-gcm"
)

var AllCiphers = []string{Chacha, AES256, AES192, AES128}

type spec struct {
	keySize, saltSize int
	mk                func(k []byte) (cipher.AEAD, error)
}

func aesgcm(k []byte) (cipher.AEAD, error) {
	b, err := aes.NewCipher(k)
	if err != nil {
		return nil, err
	}
	return cipher.NewGCM(b)
}

func specOf(name string) (spec, error) {
	switch strings.ToLower(name) {
	case Chacha, "aead_chacha20_poly1305":
		return spec{32, 32, chacha20poly1305.New}, nil
	case AES256, "aead_aes_256_gcm":
		return spec{32, 32, aesgcm}, nil
	case AES192, "aead_aes_192_gcm":
		return spec{24, 24, aesgcm}, nil
	case AES128, "aead_aes_128_gcm":
		return spec{16, 16, aesgcm}, nil
	}
	return spec{}, fmt.Errorf("unknown cipher %q", name)
}

// Key is a (cipher, secret) pair with the derived master key.
type Key struct {
	Cipher string
	Secret string
	spec   spec
	master []byte
}

const TagSize = 16

// NewKey derives the master key with EVP_BytesToKey(MD5).
func NewKey(cipherName, secret string) *Key {
	sp, err := specOf(cipherName)
	if err != nil {
		panic(err)
	}
	var d, prev []byte
	for len(d) < sp.keySize {
		h := md5.New()
		h.Write(prev)
		h.Write([]byte(secret))
		prev = h.Sum(nil)
		d = append(d, prev...)
	}
	return &Key{Cipher: cipherName, Secret: secret, spec: sp, master: d[:sp.keySize]}
}

func (k *Key) SaltSize() int { return k.spec.saltSize }

// Material identifies the key material (what the server can distinguish).
func (k *Key) Material() string { return strings.ToLower(k.Cipher) + "|" + k.Secret }

func (k *Key) aead(salt []byte) cipher.AEAD {
	sub := make([]byte, k.spec.keySize)
	if _, err := io.ReadFull(hkdf.New(sha1.New, k.master, salt, []byte("ss-subkey")), sub); err != nil {
		panic(err)
	}
	a, err := k.spec.mk(sub)
	if err != nil {
		panic(err)
	}
	return a
}

func incr(n []byte) {
	for i := range n {
		n[i]++
		if n[i] != 0 {
			return
		}
	}
}

// StreamEncoder produces a Shadowsocks TCP stream with explicit control of
// the salt and chunk boundaries.
type StreamEncoder struct {
	key   *Key
	Salt  []byte
	aead  cipher.AEAD
	nonce []byte
	wrote bool
}

func NewStreamEncoder(k *Key, salt []byte) *StreamEncoder {
	if len(salt) != k.SaltSize() {
		panic("bad salt size")
	}
	a := k.aead(salt)
	return &StreamEncoder{key: k, Salt: append([]byte(nil), salt...), aead: a, nonce: make([]byte, a.NonceSize())}
}

// Chunk returns the wire bytes for one chunk with this plaintext (1..0x3FFF bytes;
// other lengths are encoded verbatim for hostile inputs). The first call is
// prefixed with the salt.
func (e *StreamEncoder) Chunk(plain []byte) []byte {
	return e.ChunkWithLen(plain, uint16(len(plain)))
}

// ChunkWithLen allows a declared length different from len(plain) (hostile).
func (e *StreamEncoder) ChunkWithLen(plain []byte, declared uint16) []byte {
	var out []byte
	if !e.wrote {
		out = append(out, e.Salt...)
		e.wrote = true
	}
	var lb [2]byte
	binary.BigEndian.PutUint16(lb[:], declared)
	out = e.aead.Seal(out, e.nonce, lb[:], nil)
	incr(e.nonce)
	out = e.aead.Seal(out, e.nonce, plain, nil)
	incr(e.nonce)
	return out
}

// EncodeStream splits plain according to plan (sizes; the remainder goes in
// max-size chunks) and returns the complete wire stream.
func EncodeStream(k *Key, salt, plain []byte, plan []int) []byte {
	e := NewStreamEncoder(k, salt)
	var out []byte
	for _, n := range plan {
		if len(plain) == 0 {
			break
		}
		if n < 1 {
			n = 1
		}
		if n > 0x3FFF {
			n = 0x3FFF
		}
		if n > len(plain) {
			n = len(plain)
		}
		out = append(out, e.Chunk(plain[:n])...)
		plain = plain[n:]
	}
	for len(plain) > 0 {
		n := len(plain)
		if n > 0x3FFF {
			n = 0x3FFF
		}
		out = append(out, e.Chunk(plain[:n])...)
		plain = plain[n:]
	}
	if !e.wrote {
		out = append(out, e.Salt...)
		e.wrote = true
	}
	return out
}

// ErrAuth is returned when a chunk fails authentication.
var ErrAuth = errors.New("sscodec: authentication failed")

// StreamDecoder incrementally decodes a Shadowsocks TCP stream.
type StreamDecoder struct {
	key   *Key
	buf   []byte
	Salt  []byte
	aead  cipher.AEAD
	nonce []byte
	need  int // -1: waiting for length block; >=0: payload length
	Plain []byte
	Err   error
}

func NewStreamDecoder(k *Key) *StreamDecoder { return &StreamDecoder{key: k, need: -1} }

// Feed appends wire bytes and decodes as many chunks as are complete.
func (d *StreamDecoder) Feed(b []byte) error {
	if d.Err != nil {
		return d.Err
	}
	d.buf = append(d.buf, b...)
	if d.aead == nil {
		if len(d.buf) < d.key.SaltSize() {
			return nil
		}
		d.Salt = append([]byte(nil), d.buf[:d.key.SaltSize()]...)
		d.buf = d.buf[d.key.SaltSize():]
		d.aead = d.key.aead(d.Salt)
		d.nonce = make([]byte, d.aead.NonceSize())
	}
	for {
		if d.need < 0 {
			if len(d.buf) < 2+TagSize {
				return nil
			}
			lb, err := d.aead.Open(nil, d.nonce, d.buf[:2+TagSize], nil)
			if err != nil {
				d.Err = ErrAuth
				return d.Err
			}
			incr(d.nonce)
			d.buf = d.buf[2+TagSize:]
			d.need = int(binary.BigEndian.Uint16(lb) & 0x3FFF)
		}
		if len(d.buf) < d.need+TagSize {
			return nil
		}
		p, err := d.aead.Open(nil, d.nonce, d.buf[:d.need+TagSize], nil)
		if err != nil {
			d.Err = ErrAuth
			return d.Err
		}
		incr(d.nonce)
		d.buf = d.buf[d.need+TagSize:]
		d.need = -1
		d.Plain = append(d.Plain, p...)
	}
}

// Pending reports undecoded trailing bytes.
func (d *StreamDecoder) Pending() int { return len(d.buf) }

// OpensHeader reports whether the first salt+2+16 bytes of first authenticate
// under k: this is the reference for "the opening bytes are valid under key k".
func (k *Key) OpensHeader(first []byte) bool {
	n := k.SaltSize() + 2 + TagSize
	if len(first) < n {
		return false
	}
	a := k.aead(first[:k.SaltSize()])
	_, err := a.Open(nil, make([]byte, a.NonceSize()), first[k.SaltSize():n], nil)
	return err == nil
}

// PackUDP encrypts a UDP datagram: [salt][seal(plain)].
func PackUDP(k *Key, salt, plain []byte) []byte {
	a := k.aead(salt)
	out := append([]byte(nil), salt...)
	return a.Seal(out, make([]byte, a.NonceSize()), plain, nil)
}

// UnpackUDP decrypts a UDP datagram; returns salt, plaintext.
func UnpackUDP(k *Key, pkt []byte) (salt, plain []byte, err error) {
	if len(pkt) < k.SaltSize()+TagSize {
		return nil, nil, ErrAuth
	}
	salt = pkt[:k.SaltSize()]
	a := k.aead(salt)
	plain, err = a.Open(nil, make([]byte, a.NonceSize()), pkt[k.SaltSize():], nil)
	if err != nil {
		return nil, nil, ErrAuth
	}
	return salt, plain, nil
}

// SocksAddr serialises host:port as a SOCKS5 address (atyp 1/3/4).
// form: "ip" (1 or 4 by family), "domain" (3 with the textual host).
func SocksAddr(host string, port int, domain bool) []byte {
	var out []byte
	if !domain {
		if ip, err := netip.ParseAddr(host); err == nil {
			if ip.Is4() {
				out = append(out, 1)
				b := ip.As4()
				out = append(out, b[:]...)
			} else {
				out = append(out, 4)
				b := ip.As16()
				out = append(out, b[:]...)
			}
			return append(out, byte(port>>8), byte(port))
		}
	}
	if len(host) > 255 {
		host = host[:255]
	}
	out = append(out, 3, byte(len(host)))
	out = append(out, host...)
	return append(out, byte(port>>8), byte(port))
}

// SocksAddrFor is SocksAddr for a "host:port" string.
func SocksAddrFor(hostport string, domain bool) []byte {
	h, p, err := net.SplitHostPort(hostport)
	if err != nil {
		panic(err)
	}
	pn, _ := strconv.Atoi(p)
	return SocksAddr(h, pn, domain)
}

// ParseSocksAddr parses a SOCKS5 address at the start of b.
func ParseSocksAddr(b []byte) (host string, port int, n int, err error) {
	if len(b) < 1 {
		return "", 0, 0, errors.New("short")
	}
	switch b[0] {
	case 1:
		if len(b) < 7 {
			return "", 0, 0, errors.New("short")
		}
		return netip.AddrFrom4([4]byte(b[1:5])).String(), int(b[5])<<8 | int(b[6]), 7, nil
	case 4:
		if len(b) < 19 {
			return "", 0, 0, errors.New("short")
		}
		return netip.AddrFrom16([16]byte(b[1:17])).String(), int(b[17])<<8 | int(b[18]), 19, nil
	case 3:
		if len(b) < 2 || len(b) < 2+int(b[1])+2 {
			return "", 0, 0, errors.New("short")
		}
		l := int(b[1])
		return string(b[2 : 2+l]), int(b[2+l])<<8 | int(b[3+l]), 4 + l, nil
	}
	return "", 0, 0, fmt.Errorf("bad atyp %d", b[0])
}

// SaltPrefixes are openings a client may give its salt (the salt is the client's choice; Outline clients have a
// documented "prefix" feature that makes the first bytes of a connection look like another protocol).
var SaltPrefixes = []string{"", "POST ", "GET ", "HEAD ", "PUT ", "OPTIONS ", "CONNECT ", "HTTP/1.1 ", "SSH-2.0\r\n",
	"\x16\x03\x01\x00\xa8\x01\x01", "\x16\x03\x03\x40\x00\x02", "\x13\x03\x03\x3f", "\x05\x01\x00", "\x00\x00\x00\x00\x00\x00", "\xff\xff\xff\xff\xff\xff"}

// PrefixedSalt returns n bytes that are a pure function of seed and start with SaltPrefixes[i] (cut to n).
func PrefixedSalt(seed int64, n, i int) []byte {
	b := DetBytes(seed, n)
	copy(b, SaltPrefixes[i%len(SaltPrefixes)])
	return b
}
