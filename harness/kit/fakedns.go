package kit

// fakedns.go: replaces net.DefaultResolver (in this process, which is also the
// server process) by a pure-Go resolver whose Dial goes to an in-process DNS
// responder. The answer set is encoded in the queried name:
//
//	v4-127-0-0-1.v6-fd00--2.n17.verif.test  =>  A 127.0.0.1, AAAA fd00::2
//
// so that every generated hostname is self-describing and the responder is stateless.

import (
	"context"
	"net"
	"net/netip"
	"strings"
	"sync"
)

var dnsOnce sync.Once
var dnsAddr string

// DNSName builds a hostname that resolves to exactly these addresses (in order per family).
func DNSName(tag string, addrs ...string) string {
	var labels []string
	for _, a := range addrs {
		ip := netip.MustParseAddr(a)
		if ip.Is4() {
			labels = append(labels, "v4-"+strings.ReplaceAll(ip.String(), ".", "-"))
		} else {
			labels = append(labels, "v6-"+strings.ReplaceAll(ip.StringExpanded(), ":", "-"))
		}
	}
	labels = append(labels, tag, "verif", "test")
	return strings.Join(labels, ".")
}

func answersFor(name string) (v4, v6 []netip.Addr) {
	for _, l := range strings.Split(strings.ToLower(name), ".") {
		switch {
		case strings.HasPrefix(l, "v4-"):
			if a, err := netip.ParseAddr(strings.ReplaceAll(l[3:], "-", ".")); err == nil {
				v4 = append(v4, a)
			}
		case strings.HasPrefix(l, "v6-"):
			if a, err := netip.ParseAddr(strings.ReplaceAll(l[3:], "-", ":")); err == nil {
				v6 = append(v6, a)
			}
		}
	}
	return
}

// InstallFakeDNS starts the responder and points net.DefaultResolver at it.
func InstallFakeDNS() {
	dnsOnce.Do(func() {
		pc, err := net.ListenPacket("udp", "127.0.0.1:0")
		if err != nil {
			panic(err)
		}
		dnsAddr = pc.LocalAddr().String()
		go serveDNS(pc)
		net.DefaultResolver = &net.Resolver{PreferGo: true, Dial: func(ctx context.Context, network, address string) (net.Conn, error) {
			var d net.Dialer
			return d.DialContext(ctx, "udp", dnsAddr)
		}}
	})
}

func serveDNS(pc net.PacketConn) {
	buf := make([]byte, 1500)
	for {
		n, from, err := pc.ReadFrom(buf)
		if err != nil {
			return
		}
		if resp := dnsRespond(buf[:n]); resp != nil {
			pc.WriteTo(resp, from)
		}
	}
}

func dnsRespond(q []byte) []byte {
	if len(q) < 12 {
		return nil
	}
	// parse the question name
	i := 12
	var labels []string
	for {
		if i >= len(q) {
			return nil
		}
		l := int(q[i])
		i++
		if l == 0 {
			break
		}
		if l > 63 || i+l > len(q) {
			return nil
		}
		labels = append(labels, string(q[i:i+l]))
		i += l
	}
	if i+4 > len(q) {
		return nil
	}
	qtype := int(q[i])<<8 | int(q[i+1])
	qend := i + 4
	name := strings.Join(labels, ".")
	resp := append([]byte(nil), q[:qend]...)
	resp[2] = 0x84 // QR, AA
	resp[3] = 0x00
	resp[6], resp[7], resp[8], resp[9], resp[10], resp[11] = 0, 0, 0, 0, 0, 0
	if !strings.HasSuffix(strings.ToLower(name), "verif.test") {
		resp[3] = 0x03 // NXDOMAIN
		return resp
	}
	v4, v6 := answersFor(name)
	var ans [][]byte
	switch qtype {
	case 1:
		for _, a := range v4 {
			b := a.As4()
			ans = append(ans, b[:])
		}
	case 28:
		for _, a := range v6 {
			b := a.As16()
			ans = append(ans, b[:])
		}
	}
	if len(v4) == 0 && len(v6) == 0 {
		resp[3] = 0x03
		return resp
	}
	resp[7] = byte(len(ans))
	for _, a := range ans {
		resp = append(resp, 0xC0, 0x0C, byte(qtype>>8), byte(qtype), 0, 1, 0, 0, 0, 5, 0, byte(len(a)))
		resp = append(resp, a...)
	}
	return resp
}
