package kit

// recmetrics.go: recording implementations of the server's metrics interfaces,
// optionally delegating to a real collector.

import (
	"net"
	"sync"
	"time"

	"github.com/Jigsaw-Code/outline-ss-server/service"
	"github.com/Jigsaw-Code/outline-ss-server/service/metrics"
)

type TCPEvent struct {
	Kind   string `json:"kind"` // authenticated | closed | probe
	Key    string `json:"key,omitempty"`
	Status string `json:"status,omitempty"`
	Drain  string `json:"drain,omitempty"`
	Bytes  int64  `json:"bytes,omitempty"`
	Data   metrics.ProxyMetrics
	Dur    time.Duration
	At     time.Time
}

// RecTCPConn records the TCPConnMetrics calls of one connection.
type RecTCPConn struct {
	mu     sync.Mutex
	Remote string
	Local  string
	Opened time.Time
	events []TCPEvent
	Inner  service.TCPConnMetrics
	done   chan struct{}
	once   sync.Once
}

var _ service.TCPConnMetrics = (*RecTCPConn)(nil)

func NewRecTCPConn() *RecTCPConn { return &RecTCPConn{done: make(chan struct{}), Opened: time.Now()} }

func (r *RecTCPConn) add(e TCPEvent) {
	e.At = time.Now()
	r.mu.Lock()
	r.events = append(r.events, e)
	r.mu.Unlock()
}
func (r *RecTCPConn) AddAuthenticated(k string) {
	if r.Inner != nil {
		r.Inner.AddAuthenticated(k)
	}
	r.add(TCPEvent{Kind: "authenticated", Key: k})
}
func (r *RecTCPConn) AddClosed(status string, d metrics.ProxyMetrics, dur time.Duration) {
	if r.Inner != nil {
		r.Inner.AddClosed(status, d, dur)
	}
	r.add(TCPEvent{Kind: "closed", Status: status, Data: d, Dur: dur})
	r.once.Do(func() { close(r.done) })
}
func (r *RecTCPConn) AddProbe(status, drain string, n int64) {
	if r.Inner != nil {
		r.Inner.AddProbe(status, drain, n)
	}
	r.add(TCPEvent{Kind: "probe", Status: status, Drain: drain, Bytes: n})
}

// Events returns a copy of the event list.
func (r *RecTCPConn) Events() []TCPEvent {
	r.mu.Lock()
	defer r.mu.Unlock()
	return append([]TCPEvent(nil), r.events...)
}

// Done is closed at the first AddClosed.
func (r *RecTCPConn) Done() <-chan struct{} { return r.done }

// Closed returns the first closed event, if any.
func (r *RecTCPConn) Closed() (TCPEvent, bool) {
	for _, e := range r.Events() {
		if e.Kind == "closed" {
			return e, true
		}
	}
	return TCPEvent{}, false
}

// AuthKey returns the first authenticated key, if any.
func (r *RecTCPConn) AuthKey() (string, bool) {
	for _, e := range r.Events() {
		if e.Kind == "authenticated" {
			return e.Key, true
		}
	}
	return "", false
}

type UDPEvent struct {
	Kind   string `json:"kind"` // fromClient | fromTarget | removed
	Status string `json:"status,omitempty"`
	A, B   int64
	At     time.Time
}

// RecUDPAssoc records the UDPConnMetrics calls of one association.
type RecUDPAssoc struct {
	mu     sync.Mutex
	Client string
	Key    string
	Added  time.Time
	events []UDPEvent
	Inner  service.UDPConnMetrics
	// RemoveDelay: the removal report takes this long to return (a slow metrics sink); the removal is recorded
	// when the report starts
	RemoveDelay time.Duration
}

var _ service.UDPConnMetrics = (*RecUDPAssoc)(nil)

func (r *RecUDPAssoc) add(e UDPEvent) {
	e.At = time.Now()
	r.mu.Lock()
	r.events = append(r.events, e)
	r.mu.Unlock()
}
func (r *RecUDPAssoc) AddPacketFromClient(status string, cp, pt int64) {
	if r.Inner != nil {
		r.Inner.AddPacketFromClient(status, cp, pt)
	}
	r.add(UDPEvent{Kind: "fromClient", Status: status, A: cp, B: pt})
}
func (r *RecUDPAssoc) AddPacketFromTarget(status string, tp, pc int64) {
	if r.Inner != nil {
		r.Inner.AddPacketFromTarget(status, tp, pc)
	}
	r.add(UDPEvent{Kind: "fromTarget", Status: status, A: tp, B: pc})
}
func (r *RecUDPAssoc) RemoveNatEntry() {
	if r.Inner != nil { // first the real collector, then the record: whoever sees the record may read the collector
		r.Inner.RemoveNatEntry()
	}
	r.add(UDPEvent{Kind: "removed"})
	if r.RemoveDelay > 0 {
		time.Sleep(r.RemoveDelay)
	}
}
func (r *RecUDPAssoc) Events() []UDPEvent {
	r.mu.Lock()
	defer r.mu.Unlock()
	return append([]UDPEvent(nil), r.events...)
}

// RemovedAt returns when the first removal was reported (zero if not yet).
func (r *RecUDPAssoc) RemovedAt() time.Time {
	for _, e := range r.Events() {
		if e.Kind == "removed" {
			return e.At
		}
	}
	return time.Time{}
}

func (r *RecUDPAssoc) Removed() int {
	n := 0
	for _, e := range r.Events() {
		if e.Kind == "removed" {
			n++
		}
	}
	return n
}

type CipherSearch struct {
	Proto string
	Found bool
}

// RecService records ServiceMetrics calls.
type RecService struct {
	mu       sync.Mutex
	tcp      []*RecTCPConn
	udp      []*RecUDPAssoc
	searches []CipherSearch
	Inner    service.ServiceMetrics
	// RemoveDelay is handed to every association record (see RecUDPAssoc.RemoveDelay)
	RemoveDelay time.Duration
}

var _ service.ServiceMetrics = (*RecService)(nil)

func (s *RecService) AddOpenTCPConnection(conn net.Conn) service.TCPConnMetrics {
	r := NewRecTCPConn()
	if a := conn.RemoteAddr(); a != nil {
		r.Remote = a.String()
	}
	if a := conn.LocalAddr(); a != nil {
		r.Local = a.String()
	}
	if s.Inner != nil {
		r.Inner = s.Inner.AddOpenTCPConnection(conn)
	}
	s.mu.Lock()
	s.tcp = append(s.tcp, r)
	s.mu.Unlock()
	return r
}
func (s *RecService) AddUDPNatEntry(clientAddr net.Addr, key string) service.UDPConnMetrics {
	r := &RecUDPAssoc{Client: clientAddr.String(), Key: key, Added: time.Now(), RemoveDelay: s.RemoveDelay}
	if s.Inner != nil {
		r.Inner = s.Inner.AddUDPNatEntry(clientAddr, key)
	}
	s.mu.Lock()
	s.udp = append(s.udp, r)
	s.mu.Unlock()
	return r
}
func (s *RecService) AddCipherSearch(proto string, found bool, d time.Duration) {
	s.mu.Lock()
	s.searches = append(s.searches, CipherSearch{proto, found})
	s.mu.Unlock()
	if s.Inner != nil {
		s.Inner.AddCipherSearch(proto, found, d)
	}
}
func (s *RecService) TCPConns() []*RecTCPConn {
	s.mu.Lock()
	defer s.mu.Unlock()
	return append([]*RecTCPConn(nil), s.tcp...)
}
func (s *RecService) UDPAssocs() []*RecUDPAssoc {
	s.mu.Lock()
	defer s.mu.Unlock()
	return append([]*RecUDPAssoc(nil), s.udp...)
}
func (s *RecService) Searches() []CipherSearch {
	s.mu.Lock()
	defer s.mu.Unlock()
	return append([]CipherSearch(nil), s.searches...)
}

// TCPByRemote finds the connection record with this remote address.
func (s *RecService) TCPByRemote(remote string) *RecTCPConn {
	for _, c := range s.TCPConns() {
		if c.Remote == remote {
			return c
		}
	}
	return nil
}

// RecSSMetrics records cipher searches at the ShadowsocksConnMetrics level.
type RecSSMetrics struct {
	sync.Mutex
	Found []bool
	Delay time.Duration // a slow metrics sink: every report takes this long
}

func (m *RecSSMetrics) AddCipherSearch(found bool, d time.Duration) {
	if m.Delay > 0 {
		time.Sleep(m.Delay)
	}
	m.Lock()
	m.Found = append(m.Found, found)
	m.Unlock()
}
