package kit

// evidence.go: per-shard evidence collection, failure journalling, known
// findings, and the generic "draw Case -> runCase -> verdict" driver on top of
// rapid that every property uses.

import (
	"encoding/json"
	"flag"
	"fmt"
	"hash/fnv"
	"os"
	"path/filepath"
	"runtime/debug"
	"sort"
	"strconv"
	"strings"
	"sync"
	"testing"
	"time"

	"pgregory.net/rapid"
)

// Info is filled in by a property's run function for each executed case.
type Info struct {
	NonTrivial   bool
	Classes      []string // histogram labels
	Skipped      string   // non-empty: the case could not be judged (environment), with reason
	Inconclusive string   // bound hit that did not reproduce
	Steps        int      // operations executed (state machines)
}

func (i *Info) Class(c ...string) { i.Classes = append(i.Classes, c...) }

// Finding is a violation with a site signature. A nil *Finding means the case passed.
type Finding struct {
	Signature string `json:"signature"`
	Msg       string `json:"msg"`
}

func (f *Finding) Error() string { return f.Signature + ": " + f.Msg }

// Violation builds a Finding.
func Violation(sig, format string, a ...any) *Finding {
	return &Finding{Signature: sig, Msg: fmt.Sprintf(format, a...)}
}

type shardEvidence struct {
	Property     string         `json:"property"`
	Test         string         `json:"test"`
	Shard        int            `json:"shard"`
	Seed         uint64         `json:"rapid_seed"`
	Requested    int            `json:"requested"`
	Evaluations  int            `json:"evaluations"`
	Steps        int            `json:"steps"`
	NonTrivial   []uint64       `json:"nontrivial_hashes"`
	Classes      map[string]int `json:"classes"`
	Skipped      map[string]int `json:"skipped"`
	Inconclusive []string       `json:"inconclusive"`
	KnownHits    map[string]int `json:"known_hits"`
	Samples      []any          `json:"samples"`
	Extra        map[string]any `json:"extra,omitempty"`
	WallS        float64        `json:"wall_s"`
	Failed       bool           `json:"failed"`
	// enumerations: cases that are distinct by construction and counted, not hashed
	BulkNonTrivial int `json:"bulk_nontrivial"`
}

// Recorder accumulates evidence of one test function in one shard.
type Recorder struct {
	mu    sync.Mutex
	ev    shardEvidence
	nt    map[uint64]struct{}
	start time.Time
	path  string
}

func envInt(name string, def int) int {
	if v, err := strconv.Atoi(os.Getenv(name)); err == nil {
		return v
	}
	return def
}

// Tier returns "quick" or "thorough".
func Tier() string {
	if os.Getenv("VERIF_TIER") == "thorough" {
		return "thorough"
	}
	return "quick"
}

// Shard returns (index, count).
func Shard() (int, int) { return envInt("VERIF_SHARD", 0), max(1, envInt("VERIF_SHARDS", 1)) }

// OutDir is where shards write evidence fragments and failing cases.
func OutDir(id string) string {
	d := os.Getenv("VERIF_OUT")
	if d == "" {
		d = "/verif/out"
	}
	d = filepath.Join(d, id)
	os.MkdirAll(d, 0o755)
	return d
}

// SeedFor derives a non-zero rapid seed from VERIF_SEED, a name and the shard.
func SeedFor(name string) uint64 {
	sh, _ := Shard()
	h := fnv.New64a()
	fmt.Fprintf(h, "%s|%s|%d", os.Getenv("VERIF_SEED"), name, sh)
	s := h.Sum64()
	if s == 0 {
		s = 1
	}
	return s
}

func NewRecorder(id, test string) *Recorder {
	sh, _ := Shard()
	r := &Recorder{nt: map[uint64]struct{}{}, start: time.Now()}
	r.ev = shardEvidence{Property: id, Test: test, Shard: sh, Classes: map[string]int{}, Skipped: map[string]int{}, KnownHits: map[string]int{}}
	r.path = filepath.Join(OutDir(id), fmt.Sprintf("ev-%s-%d.json", test, sh))
	return r
}

func hashCase(c any) uint64 {
	b, _ := json.Marshal(c)
	h := fnv.New64a()
	h.Write(b)
	return h.Sum64()
}

// Record notes one executed case.
func (r *Recorder) Record(c any, info *Info) {
	r.mu.Lock()
	defer r.mu.Unlock()
	r.ev.Evaluations++
	r.ev.Steps += info.Steps
	for _, cl := range info.Classes {
		r.ev.Classes[cl]++
	}
	if info.Skipped != "" {
		r.ev.Skipped[info.Skipped]++
	}
	if info.Inconclusive != "" && len(r.ev.Inconclusive) < 20 {
		r.ev.Inconclusive = append(r.ev.Inconclusive, info.Inconclusive)
	}
	if info.NonTrivial && info.Skipped == "" {
		h := hashCase(c)
		if _, ok := r.nt[h]; !ok {
			r.nt[h] = struct{}{}
			// keep a few samples: the first 2 and then at doubling indices
			n := len(r.nt)
			if n <= 2 || (n&(n-1)) == 0 && len(r.ev.Samples) < 8 {
				r.ev.Samples = append(r.ev.Samples, trimSample(c))
			}
		}
	}
}

// trimSample bounds the size of a sample kept in the evidence.
func trimSample(c any) any {
	b, err := json.Marshal(c)
	if err != nil {
		return fmt.Sprint(c)
	}
	if len(b) > 6000 {
		return map[string]any{"truncated_json": string(b[:6000]), "full_len": len(b)}
	}
	var v any
	json.Unmarshal(b, &v)
	return v
}

// Bulk records an enumeration: evals cases executed, nt of them non-trivial and distinct by construction.
func (r *Recorder) Bulk(evals, nt int, sample any) {
	r.mu.Lock()
	defer r.mu.Unlock()
	r.ev.Evaluations += evals
	r.ev.Requested += evals
	r.ev.BulkNonTrivial += nt
	if sample != nil && len(r.ev.Samples) < 8 {
		r.ev.Samples = append(r.ev.Samples, sample)
	}
}

func (r *Recorder) SetExtra(k string, v any) {
	r.mu.Lock()
	defer r.mu.Unlock()
	if r.ev.Extra == nil {
		r.ev.Extra = map[string]any{}
	}
	r.ev.Extra[k] = v
}

func (r *Recorder) AddExtraCount(k string, n int) {
	r.mu.Lock()
	defer r.mu.Unlock()
	if r.ev.Extra == nil {
		r.ev.Extra = map[string]any{}
	}
	cur, _ := r.ev.Extra[k].(int)
	r.ev.Extra[k] = cur + n
}

func (r *Recorder) Known(sig string) {
	r.mu.Lock()
	defer r.mu.Unlock()
	r.ev.KnownHits[sig]++
}

// Flush writes the shard fragment.
func (r *Recorder) Flush(failed bool) {
	r.mu.Lock()
	defer r.mu.Unlock()
	r.ev.NonTrivial = r.ev.NonTrivial[:0]
	for h := range r.nt {
		r.ev.NonTrivial = append(r.ev.NonTrivial, h)
	}
	sort.Slice(r.ev.NonTrivial, func(i, j int) bool { return r.ev.NonTrivial[i] < r.ev.NonTrivial[j] })
	r.ev.WallS = time.Since(r.start).Seconds()
	r.ev.Failed = failed
	b, _ := json.Marshal(r.ev)
	os.WriteFile(r.path, b, 0o644)
}

// ---- known findings -------------------------------------------------------

type knownEntry struct {
	Property  string `json:"property"`
	Signature string `json:"signature"`
	Status    string `json:"status"`
	What      string `json:"what"`
}

var (
	knownOnce sync.Once
	knownList []knownEntry
)

// IsKnown reports whether a finding signature is listed with status "known".
func IsKnown(id, sig string) bool {
	knownOnce.Do(func() {
		p := os.Getenv("VERIF_KNOWN")
		if p == "" {
			p = "/verif/known_findings.json"
		}
		b, err := os.ReadFile(p)
		if err != nil {
			return
		}
		var f struct {
			Findings []knownEntry `json:"findings"`
		}
		json.Unmarshal(b, &f)
		knownList = f.Findings
	})
	for _, k := range knownList {
		if k.Property == id && k.Status == "known" && k.Signature == sig {
			return true
		}
	}
	return false
}

// ---- failure journal -------------------------------------------------------

type failFile struct {
	Property  string          `json:"property"`
	Test      string          `json:"test"`
	Signature string          `json:"signature"`
	Msg       string          `json:"msg"`
	Case      json.RawMessage `json:"case"`
}

func failPath(id, test string) string {
	sh, _ := Shard()
	return filepath.Join(OutDir(id), fmt.Sprintf("fail-%s-%d.json", test, sh))
}

// WriteFail journals a failing case; the last write of a rapid run is the shrunk case.
func WriteFail(id, test string, c any, f *Finding) {
	cb, _ := json.Marshal(c)
	b, _ := json.MarshalIndent(failFile{id, test, f.Signature, f.Msg, cb}, "", " ")
	os.WriteFile(failPath(id, test), b, 0o644)
}

// Journal writes the case about to be executed, for checks whose failure
// mode kills or wedges the process. Removed by Unjournal when the case ends.
func Journal(id, test string, c any) {
	cb, _ := json.Marshal(c)
	sh, _ := Shard()
	b, _ := json.Marshal(failFile{id, test, "process-death-or-wedge", "journalled before execution; the process died or wedged while running this case", cb})
	os.WriteFile(filepath.Join(OutDir(id), fmt.Sprintf("journal-%s-%d.json", test, sh)), b, 0o644)
}

func Unjournal(id, test string) {
	sh, _ := Shard()
	os.Remove(filepath.Join(OutDir(id), fmt.Sprintf("journal-%s-%d.json", test, sh)))
}

// ---- generic property driver ----------------------------------------------

// Prop describes one generated check.
type Prop[C any] struct {
	ID       string // property id, e.g. "C01"
	Name     string // test name (unique within the id)
	Quick    int    // total cases across shards in the quick tier
	Thorough int    // total cases across shards in the thorough tier
	Gen      func(t *rapid.T) C
	Run      func(c C, info *Info) *Finding
	Journal  bool // journal each case before running (process-killing failure modes)
	// Fixed cases executed before generation (regressions, hostile constants).
	Fixed []C
}

// Cases returns the number of cases this shard should generate.
func (p *Prop[C]) cases() int {
	n := p.Quick
	if Tier() == "thorough" {
		n = p.Thorough
	}
	if v := envInt("VERIF_CASES", 0); v > 0 {
		n = v
	}
	_, s := Shard()
	n = (n + s - 1) / s
	if n < 1 {
		n = 1
	}
	return n
}

// Execute runs the property: replay mode when VERIF_REPLAY is set, else generation.
func (p *Prop[C]) Execute(t *testing.T) {
	if rp := os.Getenv("VERIF_REPLAY"); rp != "" {
		p.replay(t, rp)
		return
	}
	rec := NewRecorder(p.ID, p.Name)
	os.Remove(failPath(p.ID, p.Name))
	n := p.cases()
	seed := SeedFor(p.ID + "/" + p.Name)
	rec.ev.Seed, rec.ev.Requested = seed, n
	flag.Set("rapid.checks", strconv.Itoa(n))
	flag.Set("rapid.seed", strconv.FormatUint(seed, 10))
	flag.Set("rapid.nofailfile", "true")
	if os.Getenv("VERIF_SHRINKTIME") != "" {
		flag.Set("rapid.shrinktime", os.Getenv("VERIF_SHRINKTIME"))
	}
	failed := false
	defer func() { rec.Flush(failed || t.Failed()) }()

	one := func(c C) *Finding {
		info := &Info{}
		if p.Journal {
			Journal(p.ID, p.Name, c)
		}
		f := safeRun(p.Run, c, info)
		if p.Journal {
			Unjournal(p.ID, p.Name)
		}
		rec.Record(c, info)
		if f != nil && IsKnown(p.ID, f.Signature) {
			rec.Known(f.Signature)
			return nil
		}
		if f != nil {
			WriteFail(p.ID, p.Name, c, f)
		}
		return f
	}
	sh, _ := Shard()
	if sh == 0 {
		for i, c := range p.Fixed {
			if f := one(c); f != nil {
				failed = true
				t.Fatalf("fixed case %d: %v", i, f)
			}
		}
	}
	rapid.Check(t, func(rt *rapid.T) {
		c := p.Gen(rt)
		if f := one(c); f != nil {
			rt.Fatalf("%v", f)
		}
	})
}

func (p *Prop[C]) replay(t *testing.T, path string) {
	b, err := os.ReadFile(path)
	if err != nil {
		t.Skipf("cannot read replay file: %v", err)
	}
	var ff failFile
	if err := json.Unmarshal(b, &ff); err != nil || ff.Property != p.ID || ff.Test != p.Name {
		t.Skip("replay file is for another test")
	}
	var c C
	if err := json.Unmarshal(ff.Case, &c); err != nil {
		t.Fatalf("bad case in replay file: %v", err)
	}
	fmt.Printf("REPLAY-RAN property=%s test=%s\n", p.ID, p.Name)
	info := &Info{}
	if f := safeRun(p.Run, c, info); f != nil {
		if IsKnown(p.ID, f.Signature) {
			fmt.Printf("KNOWN-FINDING: property=%s %s\n", p.ID, f.Signature)
			return
		}
		fmt.Printf("REPLAY-FAIL property=%s signature=%s msg=%s\n", p.ID, f.Signature, strings.ReplaceAll(f.Msg, "\n", " | "))
		t.Fatalf("%v", f)
	}
}

// safeRun converts a panic that escapes into the harness goroutine into a Finding
// (code under test that panics in the caller's goroutine, e.g. Handle called directly).
func safeRun[C any](run func(C, *Info) *Finding, c C, info *Info) (f *Finding) {
	defer func() {
		if r := recover(); r != nil {
			f = &Finding{Signature: "panic-in-caller-goroutine", Msg: fmt.Sprintf("%v\n%s", r, debug.Stack())}
		}
	}()
	return run(c, info)
}
