package kit

import (
	"context"
	"log/slog"
	"strings"
	"sync"
)

// LogCapture is a slog.Handler that drops everything except records that report a
// recovered panic, which it keeps (the server logs "Panic in TCP handler" / "Panic in UDP loop").
type LogCapture struct {
	mu     sync.Mutex
	panics []string
}

var Logs = &LogCapture{}

func (l *LogCapture) Enabled(context.Context, slog.Level) bool { return true }
func (l *LogCapture) Handle(_ context.Context, r slog.Record) error {
	if strings.Contains(r.Message, "Panic") || strings.Contains(r.Message, "panic") {
		var sb strings.Builder
		sb.WriteString(r.Message)
		r.Attrs(func(a slog.Attr) bool { sb.WriteString(" " + a.String()); return true })
		l.mu.Lock()
		l.panics = append(l.panics, sb.String())
		l.mu.Unlock()
	}
	return nil
}
func (l *LogCapture) WithAttrs([]slog.Attr) slog.Handler { return l }
func (l *LogCapture) WithGroup(string) slog.Handler      { return l }

// PanicCount returns the number of recovered-panic records seen so far.
func (l *LogCapture) PanicCount() int {
	l.mu.Lock()
	defer l.mu.Unlock()
	return len(l.panics)
}

// PanicsSince returns the records after index n.
func (l *LogCapture) PanicsSince(n int) []string {
	l.mu.Lock()
	defer l.mu.Unlock()
	return append([]string(nil), l.panics[n:]...)
}

// InstallLogCapture makes LogCapture the default slog handler.
func InstallLogCapture() { slog.SetDefault(slog.New(Logs)) }
