package kit

// netkit.go: loopback plumbing — a real StreamServe/PacketHandler front, scripted
// TCP/UDP targets, side readers with monotonic timestamps, resource accounting.

import (
	"bytes"
	"context"
	"errors"
	"fmt"
	"io"
	"net"
	"os"
	"runtime"
	"runtime/debug"
	"strings"
	"sync"
	"sync/atomic"
	"syscall"
	"time"

	"github.com/Jigsaw-Code/outline-sdk/transport"
	"github.com/Jigsaw-Code/outline-ss-server/service"
)

// HaveAddr reports whether a local IP can be bound (detected at run time, cached).
var (
	haveMu sync.Mutex
	have   = map[string]bool{}
)

func HaveAddr(ip string) bool {
	haveMu.Lock()
	defer haveMu.Unlock()
	if v, ok := have[ip]; ok {
		return v
	}
	var err error
	for i := 0; i < 50; i++ {
		var l net.Listener
		if l, err = net.Listen("tcp", net.JoinHostPort(ip, fmt.Sprint(NextPort()))); err == nil {
			l.Close()
			break
		}
		if !errors.Is(err, syscall.EADDRINUSE) {
			break
		}
	}
	have[ip] = err == nil
	return err == nil
}

// LinkLocalZoned returns a local "fe80::...%ifname" address if one exists.
func LinkLocalZoned() string {
	ifs, _ := net.Interfaces()
	for _, ifc := range ifs {
		addrs, _ := ifc.Addrs()
		for _, a := range addrs {
			if ipn, ok := a.(*net.IPNet); ok && ipn.IP.To4() == nil && ipn.IP.IsLinkLocalUnicast() {
				z := ipn.IP.String() + "%" + ifc.Name
				if HaveAddr(z) {
					return z
				}
			}
		}
	}
	return ""
}

// ---------------------------------------------------------------------------
// TCP front: real StreamServe over a real listener.

type TCPFront struct {
	L    *net.TCPListener
	Addr string
	done chan struct{}
}

// ServeTCP starts service.StreamServe on ip:0 with this handle function.
func ServeTCP(ip string, handle service.StreamHandleFunc) (*TCPFront, error) {
	l, err := ListenTCPLow(&net.TCPAddr{IP: net.ParseIP(ip)})
	if err != nil {
		return nil, err
	}
	f := &TCPFront{L: l, Addr: l.Addr().String(), done: make(chan struct{})}
	go func() {
		service.StreamServe(service.WrapStreamAcceptFunc(l.AcceptTCP), handle)
		close(f.done)
	}()
	return f, nil
}

// Close stops accepting and waits (bounded) for StreamServe to return.
func (f *TCPFront) Close(wait time.Duration) bool {
	f.L.Close()
	select {
	case <-f.done:
		return true
	case <-time.After(wait):
		return false
	}
}

// Returned reports whether StreamServe has returned.
func (f *TCPFront) Returned() bool {
	select {
	case <-f.done:
		return true
	default:
		return false
	}
}

// PermissiveDialer dials anything (used where the destination policy is not under test).
var PermissiveDialer transport.StreamDialer = &transport.TCPDialer{Dialer: net.Dialer{Control: lowPortControl}}

// ---------------------------------------------------------------------------
// Scripted TCP target.

type TCPTarget struct {
	L      *net.TCPListener
	Addr   string
	conns  chan *net.TCPConn
	mu     sync.Mutex
	all    []*net.TCPConn
	closed bool
}

func NewTCPTarget(ip string) (*TCPTarget, error) {
	return NewTCPTargetAddr(&net.TCPAddr{IP: net.ParseIP(ip)})
}

// NewTCPTargetAddr listens on a specific address (zone and port included).
func NewTCPTargetAddr(a *net.TCPAddr) (*TCPTarget, error) {
	l, err := ListenTCPLow(a)
	if err != nil {
		return nil, err
	}
	t := &TCPTarget{L: l, Addr: l.Addr().String(), conns: make(chan *net.TCPConn, 256)}
	go func() {
		for {
			c, err := l.AcceptTCP()
			if err != nil {
				return
			}
			t.mu.Lock()
			if t.closed {
				// accepted concurrently with Close: nobody would ever close it otherwise
				t.mu.Unlock()
				c.Close()
				return
			}
			t.all = append(t.all, c)
			t.mu.Unlock()
			select {
			case t.conns <- c:
			default:
			}
		}
	}()
	return t, nil
}

func (t *TCPTarget) Accept(wait time.Duration) *net.TCPConn {
	select {
	case c := <-t.conns:
		return c
	case <-time.After(wait):
		return nil
	}
}

// Accepted returns the number of connections accepted so far.
func (t *TCPTarget) Accepted() int {
	t.mu.Lock()
	defer t.mu.Unlock()
	return len(t.all)
}

func (t *TCPTarget) Close() {
	t.L.Close()
	t.mu.Lock()
	t.closed = true
	for _, c := range t.all {
		c.Close()
	}
	t.mu.Unlock()
}

// Port returns the numeric port.
func (t *TCPTarget) Port() int { return t.L.Addr().(*net.TCPAddr).Port }

// ---------------------------------------------------------------------------
// Side reader: accumulates everything read from a connection.

type SideReader struct {
	mu      sync.Mutex
	buf     bytes.Buffer
	eof     bool
	err     error
	eofAt   time.Time
	done    chan struct{}
	feed    func([]byte) // optional transformer hook (e.g. decrypt) called under lock
	changed chan struct{}
	paused  atomic.Bool // while set, the reader does not read (a slow consumer)
}

// Pause stops the reader from reading until Resume (data stays in the kernel buffers).
func (s *SideReader) Pause()  { s.paused.Store(true) }
func (s *SideReader) Resume() { s.paused.Store(false) }

func NewSideReader(r io.Reader, feed func([]byte)) *SideReader {
	s := &SideReader{done: make(chan struct{}), feed: feed, changed: make(chan struct{}, 1)}
	go func() {
		b := make([]byte, 64<<10)
		for {
			for s.paused.Load() {
				time.Sleep(200 * time.Microsecond)
			}
			n, err := r.Read(b)
			s.mu.Lock()
			if n > 0 {
				s.buf.Write(b[:n])
				if s.feed != nil {
					s.feed(b[:n])
				}
			}
			if err != nil {
				s.eofAt = time.Now()
				if err == io.EOF {
					s.eof = true
				} else {
					s.err = err
				}
				s.mu.Unlock()
				close(s.done)
				s.poke()
				return
			}
			s.mu.Unlock()
			s.poke()
		}
	}()
	return s
}

func (s *SideReader) poke() {
	select {
	case s.changed <- struct{}{}:
	default:
	}
}

func (s *SideReader) Len() int {
	s.mu.Lock()
	defer s.mu.Unlock()
	return s.buf.Len()
}

func (s *SideReader) Bytes() []byte {
	s.mu.Lock()
	defer s.mu.Unlock()
	return append([]byte(nil), s.buf.Bytes()...)
}

// State returns (bytes so far, clean EOF seen, error, time of end).
func (s *SideReader) State() (int, bool, error, time.Time) {
	s.mu.Lock()
	defer s.mu.Unlock()
	return s.buf.Len(), s.eof, s.err, s.eofAt
}

// Locked runs f with the reader's lock held (to inspect feed-side state).
func (s *SideReader) Locked(f func()) {
	s.mu.Lock()
	defer s.mu.Unlock()
	f()
}

// WaitFor polls cond (evaluated without the lock) until true or timeout.
func WaitFor(timeout time.Duration, cond func() bool) bool {
	deadline := time.Now().Add(timeout)
	sleep := 50 * time.Microsecond
	for {
		if cond() {
			return true
		}
		if time.Now().After(deadline) {
			return false
		}
		time.Sleep(sleep)
		if sleep < 2*time.Millisecond {
			sleep *= 2
		}
	}
}

func (s *SideReader) Done() <-chan struct{} { return s.done }

// WriteSegmented writes b to w in pieces of the given sizes (remainder at once).
func WriteSegmented(w io.Writer, b []byte, sizes []int, gap time.Duration) error {
	for _, n := range sizes {
		if len(b) == 0 {
			return nil
		}
		if n < 1 {
			n = 1
		}
		if n > len(b) {
			n = len(b)
		}
		if _, err := w.Write(b[:n]); err != nil {
			return err
		}
		b = b[n:]
		if gap > 0 {
			time.Sleep(gap)
		}
	}
	if len(b) > 0 {
		_, err := w.Write(b)
		return err
	}
	return nil
}

// ---------------------------------------------------------------------------
// Resource accounting.

// RepoGoroutines returns the stacks of goroutines that have a frame in the code under test.
func RepoGoroutines() []string {
	buf := make([]byte, 8<<20)
	n := runtime.Stack(buf, true)
	var out []string
	for _, g := range strings.Split(string(buf[:n]), "\n\n") {
		if strings.Contains(g, "github.com/Jigsaw-Code/outline-ss-server/") && !strings.Contains(g, "kit.RepoGoroutines") {
			out = append(out, g)
		}
	}
	return out
}

// RepoGoroutinesExcluding filters out stacks containing any of the markers.
func RepoGoroutinesExcluding(markers ...string) []string {
	var out []string
outer:
	for _, g := range RepoGoroutines() {
		for _, m := range markers {
			if strings.Contains(g, m) {
				continue outer
			}
		}
		out = append(out, g)
	}
	return out
}

// OpenFDs counts entries of /proc/self/fd that are sockets.
func OpenSockets() int {
	ents, err := os.ReadDir("/proc/self/fd")
	if err != nil {
		return -1
	}
	n := 0
	for _, e := range ents {
		if l, err := os.Readlink("/proc/self/fd/" + e.Name()); err == nil && strings.HasPrefix(l, "socket:") {
			n++
		}
	}
	return n
}

// LocalUDPPorts lists local UDP ports currently bound by any socket on the host
// (from /proc/self/net/udp and udp6).
func LocalUDPPorts() map[int]bool {
	out := map[int]bool{}
	for _, f := range []string{"/proc/self/net/udp", "/proc/self/net/udp6"} {
		b, err := os.ReadFile(f)
		if err != nil {
			continue
		}
		for i, line := range strings.Split(string(b), "\n") {
			if i == 0 {
				continue
			}
			fs := strings.Fields(line)
			if len(fs) < 2 {
				continue
			}
			if j := strings.LastIndexByte(fs[1], ':'); j >= 0 {
				var p int
				fmt.Sscanf(fs[1][j+1:], "%X", &p)
				out[p] = true
			}
		}
	}
	return out
}

// IsTimeout reports a net timeout error.
func IsTimeout(err error) bool {
	var ne net.Error
	return errors.As(err, &ne) && ne.Timeout()
}

// CtxTimeout is a helper for handler contexts (rule 5: bound mutants that dial out).
func CtxTimeout(d time.Duration) (context.Context, context.CancelFunc) {
	return context.WithTimeout(context.Background(), d)
}

// PortOwnedBySelf reports whether a socket bound to addr's port belongs to this process
// (to tell "the code under test lost track of its own socket" from "another process took the port").
func PortOwnedBySelf(udp bool, addr string) bool {
	_, portStr, err := net.SplitHostPort(addr)
	if err != nil {
		return false
	}
	var port int
	fmt.Sscanf(portStr, "%d", &port)
	mine := map[string]bool{}
	ents, _ := os.ReadDir("/proc/self/fd")
	for _, e := range ents {
		if l, err := os.Readlink("/proc/self/fd/" + e.Name()); err == nil && strings.HasPrefix(l, "socket:[") {
			mine[strings.TrimSuffix(strings.TrimPrefix(l, "socket:["), "]")] = true
		}
	}
	files := []string{"/proc/self/net/tcp", "/proc/self/net/tcp6"}
	if udp {
		files = []string{"/proc/self/net/udp", "/proc/self/net/udp6"}
	}
	for _, f := range files {
		b, err := os.ReadFile(f)
		if err != nil {
			continue
		}
		for i, line := range strings.Split(string(b), "\n") {
			fs := strings.Fields(line)
			if i == 0 || len(fs) < 10 {
				continue
			}
			j := strings.LastIndexByte(fs[1], ':')
			var p int
			fmt.Sscanf(fs[1][j+1:], "%X", &p)
			if p == port && mine[fs[9]] {
				return true
			}
		}
	}
	return false
}

// ---------------------------------------------------------------------------
// Ports outside the ephemeral range (32768-60999): the server's own NAT sockets and every
// client socket of the harness get ephemeral ports, so listener addresses handed to the
// server, and client sockets whose address must stay unique within a case, come from here.

var portCursor atomic.Int64

func init() { portCursor.Store(int64(os.Getpid()*7919) % 22000) }

// NextPort returns the next candidate port in [10000, 32000).
func NextPort() int { return 10000 + int(portCursor.Add(1)%22000) }

// FreePort returns a port below the ephemeral range that is currently free for TCP and UDP on the wildcard address.
func FreePort() (int, error) {
	for i := 0; i < 2000; i++ {
		p := NextPort()
		l, err := net.Listen("tcp", fmt.Sprintf(":%d", p))
		if err != nil {
			continue
		}
		u, err := net.ListenPacket("udp", fmt.Sprintf(":%d", p))
		l.Close()
		if err != nil {
			continue
		}
		u.Close()
		return p, nil
	}
	return 0, errors.New("no free port below the ephemeral range")
}

// DialUDPFixed connects a UDP socket to raddr from a local port that the harness never reuses.
func DialUDPFixed(raddr string) (*net.UDPConn, error) {
	ra, err := net.ResolveUDPAddr("udp", raddr)
	if err != nil {
		return nil, err
	}
	for i := 0; i < 2000; i++ {
		la := &net.UDPAddr{Port: NextPort()}
		if c, err := net.DialUDP("udp", la, ra); err == nil {
			return c, nil
		}
	}
	return nil, errors.New("no free local udp port")
}

// ListenTCPLow listens on a.IP; when a.Port is 0 the port is taken from the range below the ephemeral
// ports. (Tens of thousands of client sockets in TIME_WAIT can occupy every ephemeral port as far as
// bind() of a listener is concerned, although connect() can still reuse them.)
func ListenTCPLow(a *net.TCPAddr) (*net.TCPListener, error) {
	if a.Port != 0 {
		return net.ListenTCP("tcp", a)
	}
	var err error
	for i := 0; i < 200; i++ {
		var l *net.TCPListener
		if l, err = net.ListenTCP("tcp", &net.TCPAddr{IP: a.IP, Zone: a.Zone, Port: NextPort()}); err == nil {
			return l, nil
		}
		if !errors.Is(err, syscall.EADDRINUSE) {
			return nil, err
		}
	}
	return nil, err
}

// EnvNetError reports errors that mean the host ran out of ports or the port was taken meanwhile:
// environment, never a verdict about the code under test.
func EnvNetError(err error) bool {
	return err != nil && (errors.Is(err, syscall.EADDRNOTAVAIL) || errors.Is(err, syscall.EADDRINUSE) || errors.Is(err, syscall.EMFILE) || errors.Is(err, syscall.ENFILE) || errors.Is(err, syscall.ENOBUFS))
}

// ---------------------------------------------------------------------------
// Client sockets bound below the ephemeral range.
//
// Every TCP connection that the harness side closes first leaves a TIME_WAIT entry on its local port for
// 60 s. With ephemeral local ports, a few tens of thousands of test connections per minute occupy the whole
// ephemeral range as far as bind(port 0) is concerned, and *other* programs on the host (the repository's own
// tests, for one) then fail with "address already in use". So harness client sockets, and the permissive
// target dialer handed to the code under test, bind an explicit port from 10000-31999 with SO_REUSEADDR.

func lowPortControl(network, address string, c syscall.RawConn) error {
	var operr error
	err := c.Control(func(fd uintptr) {
		syscall.SetsockoptInt(int(fd), syscall.SOL_SOCKET, syscall.SO_REUSEADDR, 1)
		for i := 0; i < 64; i++ {
			p := NextPort()
			if strings.HasSuffix(network, "6") {
				operr = syscall.Bind(int(fd), &syscall.SockaddrInet6{Port: p})
			} else {
				operr = syscall.Bind(int(fd), &syscall.SockaddrInet4{Port: p})
			}
			if operr == nil || operr != syscall.EADDRINUSE {
				return
			}
		}
	})
	if err != nil {
		return err
	}
	if operr != nil {
		return nil // fall back to an ephemeral port chosen by connect()
	}
	return nil
}

// DialTCP connects from a local port below the ephemeral range.
func DialTCP(addr string, timeout time.Duration) (*net.TCPConn, error) {
	var lastErr error
	for attempt := 0; attempt < 4; attempt++ {
		d := net.Dialer{Timeout: timeout, Control: lowPortControl}
		c, err := d.Dial("tcp", addr)
		if err == nil {
			return c.(*net.TCPConn), nil
		}
		lastErr = err
		if !errors.Is(err, syscall.EADDRNOTAVAIL) && !errors.Is(err, syscall.EADDRINUSE) {
			break
		}
	}
	return nil, lastErr
}

// NoGC switches the garbage collector off until the returned function is called. A socket the code under test
// forgot to close is otherwise closed by its finalizer at the next collection, which makes "closed in time" and
// "nothing leaked" depend on the collector instead of on the code. Use for the span of one (small) case.
func NoGC() func() {
	old := debug.SetGCPercent(-1)
	return func() {
		debug.SetGCPercent(old)
	}
}

// UDPSocketInode returns the inode of a UDP socket of this network namespace bound to the local port
// ("" if none). A port number can be reused by another socket, also of another process; the inode cannot.
func UDPSocketInode(port int) string {
	for _, f := range []string{"/proc/self/net/udp", "/proc/self/net/udp6"} {
		b, err := os.ReadFile(f)
		if err != nil {
			continue
		}
		for i, line := range strings.Split(string(b), "\n") {
			fs := strings.Fields(line)
			if i == 0 || len(fs) < 10 {
				continue
			}
			if j := strings.LastIndexByte(fs[1], ':'); j >= 0 {
				var p int
				fmt.Sscanf(fs[1][j+1:], "%X", &p)
				if p == port {
					return fs[9]
				}
			}
		}
	}
	return ""
}

// UDPInodeBound reports whether a UDP socket with that inode still exists.
func UDPInodeBound(inode string) bool {
	if inode == "" {
		return false
	}
	for _, f := range []string{"/proc/self/net/udp", "/proc/self/net/udp6"} {
		b, err := os.ReadFile(f)
		if err != nil {
			continue
		}
		for i, line := range strings.Split(string(b), "\n") {
			fs := strings.Fields(line)
			if i > 0 && len(fs) >= 10 && fs[9] == inode {
				return true
			}
		}
	}
	return false
}
