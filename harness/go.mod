module verif/harness

go 1.23

godebug default=go1.21

require (
	github.com/Jigsaw-Code/outline-sdk v0.0.14
	github.com/Jigsaw-Code/outline-ss-server v0.0.0
	golang.org/x/crypto v0.17.0
	pgregory.net/rapid v1.3.0
)

require (
	github.com/shadowsocks/go-shadowsocks2 v0.1.5 // indirect
	golang.org/x/sys v0.16.0 // indirect
)

replace github.com/Jigsaw-Code/outline-ss-server => /repo
