package props

// C01 — TCP access-key authentication is sound and complete for every key list.
//
// Generated: a universe of keys (all four ciphers, duplicated materials, same
// secret under several ciphers), an initial list, a pool of client IPs, and a
// history of connect / update / snapshot operations against one CipherList and
// one real StreamHandler (in-memory connections, recording dialer).
// Oracle: reference trial decryption with the independent codec over the
// model list.

import (
	"bytes"
	"context"
	"fmt"
	"net"
	"net/netip"
	"sync"
	"sync/atomic"
	"testing"
	"time"

	"github.com/Jigsaw-Code/outline-ss-server/service"
	"pgregory.net/rapid"
	"verif/harness/kit"
)

type C01Op struct {
	Kind       string `json:"kind"` // connect | update | snapshot | slowconnect (an update lands between connect and first bytes)
	Key        int    `json:"key,omitempty"`
	IP         int    `json:"ip,omitempty"`
	Mut        string `json:"mut,omitempty"` // none | trunc | flip | random | extend
	MutArg     int    `json:"mut_arg,omitempty"`
	Seed       int64  `json:"seed,omitempty"`
	PayloadLen int    `json:"payload_len,omitempty"`
	List       []int  `json:"list,omitempty"`
	// SaltPrefix: index into kit.SaltPrefixes (0 = an ordinary random salt)
	SaltPrefix int `json:"salt_prefix,omitempty"`
}

type C01Case struct {
	Universe []kit.KeySpec `json:"universe"`
	Initial  []int         `json:"initial"`
	IPs      []string      `json:"ips"`
	Ops      []C01Op       `json:"ops"`
}

var c01IPPool = []string{"", "127.0.0.1", "10.1.2.3", "203.0.113.7", "::1", "2001:db8::5", "::ffff:198.51.100.4", "198.51.100.4", "fe80::1"}

func genIdxList(t *rapid.T, n int, label string, minLen, maxLen int) []int {
	if maxLen > n {
		maxLen = n
	}
	if minLen > maxLen {
		minLen = maxLen
	}
	return rapid.SliceOfNDistinct(rapid.IntRange(0, n-1), minLen, maxLen, rapid.ID[int]).Draw(t, label)
}

func genC01(maxKeys, maxOps int) func(t *rapid.T) C01Case {
	return func(t *rapid.T) C01Case {
		var c C01Case
		c.Universe = kit.GenKeyUniverse(t, 2, maxKeys)
		n := len(c.Universe)
		// Key rotation: some universe entries reuse the *id* of an earlier entry with different material, so that an
		// update can keep an id while changing its secret or cipher (and lists may carry one id twice).
		for i := 1; i < n; i++ {
			if rapid.IntRange(0, 3).Draw(t, "reuseID") == 0 {
				c.Universe[i].ID = c.Universe[rapid.IntRange(0, i-1).Draw(t, "idOf")].ID
			}
		}
		c.Initial = genIdxList(t, n, "initial", 1, n)
		c.IPs = rapid.SliceOfNDistinct(rapid.SampledFrom(c01IPPool), 1, 5, rapid.ID[string]).Draw(t, "ips")
		nops := rapid.IntRange(1, maxOps).Draw(t, "nops")
		for i := 0; i < nops; i++ {
			kind := rapid.SampledFrom([]string{"connect", "connect", "connect", "connect", "connect", "update", "snapshot", "slowconnect"}).Draw(t, "kind")
			op := C01Op{Kind: kind}
			switch kind {
			case "connect":
				op.Key = rapid.IntRange(0, n-1).Draw(t, "key")
				op.IP = rapid.IntRange(0, len(c.IPs)-1).Draw(t, "ip")
				op.Seed = rapid.Int64Range(1, 1<<40).Draw(t, "seed")
				op.PayloadLen = rapid.SampledFrom([]int{0, 0, 1, 7, 100, 1500, 20000}).Draw(t, "plen")
				op.Mut = rapid.SampledFrom([]string{"none", "none", "none", "trunc", "flip", "random", "extend"}).Draw(t, "mut")
				if rapid.IntRange(0, 3).Draw(t, "prefixed") == 0 {
					op.SaltPrefix = rapid.IntRange(1, len(kit.SaltPrefixes)-1).Draw(t, "saltPrefix")
				}
				switch op.Mut {
				case "trunc":
					op.MutArg = rapid.IntRange(0, 120).Draw(t, "truncAt")
				case "flip":
					op.MutArg = rapid.IntRange(0, 60*8-1).Draw(t, "flipBit")
				case "random":
					op.MutArg = rapid.SampledFrom([]int{0, 1, 33, 49, 50, 51, 66, 67, 200}).Draw(t, "randLen")
				}
			case "slowconnect":
				op.Key = rapid.IntRange(0, n-1).Draw(t, "key")
				op.IP = rapid.IntRange(0, len(c.IPs)-1).Draw(t, "ip")
				op.Seed = rapid.Int64Range(1, 1<<40).Draw(t, "seed")
				op.Mut = "none"
				op.List = genIdxList(t, n, "newlist", 0, n)
			case "update":
				op.List = genIdxList(t, n, "newlist", 0, n)
			case "snapshot":
				op.IP = rapid.IntRange(0, len(c.IPs)-1).Draw(t, "ip")
			}
			c.Ops = append(c.Ops, op)
		}
		return c
	}
}

func addrFor(ip string, port int) net.Addr {
	if ip == "" {
		return nil
	}
	return &net.TCPAddr{IP: net.ParseIP(ip), Port: port}
}

func netipFor(ip string) netip.Addr {
	if ip == "" {
		return netip.Addr{}
	}
	a := (&net.TCPAddr{IP: net.ParseIP(ip), Port: 1}).AddrPort().Addr()
	return a
}

const c01Target = "192.0.2.99:80"

// buildStream returns the wire bytes and the plaintext payload for a connect op.
func c01BuildStream(op C01Op, key *kit.Key, seedBump int64) (wire, payload []byte) {
	seed := op.Seed + seedBump*7919
	if op.Mut == "random" {
		return kit.DetBytes(seed, op.MutArg), nil
	}
	salt := kit.PrefixedSalt(seed, key.SaltSize(), op.SaltPrefix)
	payload = kit.DetBytes(seed+1, op.PayloadLen)
	plain := append(kit.SocksAddrFor(c01Target, false), payload...)
	// first chunk plan derived from the seed: address alone, coalesced, or split
	var plan []int
	switch seed % 3 {
	case 0:
		plan = []int{7}
	case 1:
		plan = []int{3, 4}
	}
	wire = kit.EncodeStream(key, salt, plain, plan)
	switch op.Mut {
	case "trunc":
		if op.MutArg < len(wire) {
			wire = wire[:op.MutArg]
		}
	case "flip":
		if op.MutArg/8 < len(wire) {
			wire = append([]byte(nil), wire...)
			wire[op.MutArg/8] ^= 1 << (op.MutArg % 8)
		}
	case "extend":
		wire = append(wire, kit.DetBytes(seed+2, 40)...)
	}
	return wire, payload
}

func runC01(c C01Case, info *kit.Info) *kit.Finding {
	current := func(idx []int) []kit.KeySpec {
		out := make([]kit.KeySpec, len(idx))
		for i, j := range idx {
			out[i] = c.Universe[j]
		}
		return out
	}
	model := current(c.Initial)
	cl := kit.NewCipherList(model)
	dialer := &kit.RecDialer{Response: func(string) ([]byte, error) { return []byte("pong-from-target"), nil }}
	h := service.NewStreamHandler(service.NewShadowsocksStreamAuthenticator(cl, nil, nil, nil), 5*time.Second)
	h.SetTargetDialer(dialer)

	saltSizes := func() int {
		m := map[int]bool{}
		for _, k := range model {
			m[k.Key().SaltSize()] = true
		}
		return len(m)
	}
	for i, op := range c.Ops {
		info.Steps++
		switch op.Kind {
		case "update":
			model = current(op.List)
			cl.Update(kit.CipherEntries(model))
			info.Class("op:update")
		case "snapshot":
			snap := cl.SnapshotForClientIP(netipFor(c.IPs[op.IP]))
			if f := c01CheckSnapshot(snap, model, i); f != nil {
				return f
			}
			info.Class("op:snapshot")
		case "slowconnect":
			// The client connects, the server takes its snapshot of the list and waits for the first bytes; the list is
			// replaced; the bytes arrive. The in-flight connection may be judged by either list — what matters is
			// that the replacement is not undone: later connections are judged by the new list alone (next steps).
			ip := c.IPs[op.IP]
			if ip == "" {
				continue
			}
			key := c.Universe[op.Key].Key()
			wire, _ := c01BuildStream(op, key, 0)
			conn := kit.NewGatedConn(wire, addrFor(ip, 41000+i))
			rec := kit.NewRecTCPConn()
			done := make(chan struct{})
			go func() { defer close(done); h.Handle(context.Background(), conn, rec) }()
			select {
			case <-conn.Waiting():
			case <-time.After(5 * time.Second):
				return kit.Violation("handle:stuck", "step %d: handler never started reading", i)
			}
			oldModel := model
			model = current(op.List)
			cl.Update(kit.CipherEntries(model))
			conn.Open()
			select {
			case <-done:
			case <-time.After(5 * time.Second):
				return kit.Violation("handle:stuck", "step %d: handler did not return after the client's bytes arrived", i)
			}
			if id, ok := rec.AuthKey(); ok {
				adm := kit.IDsWithMaterial(oldModel, c.Universe[op.Key].Material())
				for k := range kit.IDsWithMaterial(model, c.Universe[op.Key].Material()) {
					adm[k] = true
				}
				if !adm[id] {
					return kit.Violation("auth:misattributed", "step %d: a connection in flight during a list replacement was attributed to %q; ids with that material before or after the replacement: %v", i, id, keysOf(adm))
				}
			}
			info.Class("op:slowconnect")
			info.NonTrivial = true
		case "connect":
			key := c.Universe[op.Key].Key()
			var last *kit.Finding
			for attempt := int64(0); attempt < 3; attempt++ {
				var retry bool
				last, retry = c01Connect(c, op, i, key, attempt, model, cl, h, dialer, info, saltSizes())
				if last == nil || !retry {
					break
				}
			}
			if last != nil {
				return last
			}
		}
	}
	return nil
}

func c01CheckSnapshot(snap []*listElem, model []kit.KeySpec, step int) *kit.Finding {
	want := map[string]int{}
	for _, k := range model {
		want[k.ID]++
	}
	got := map[string]int{}
	for _, e := range snap {
		if e == nil {
			return kit.Violation("snapshot:nil-element", "step %d: snapshot contains a nil element", step)
		}
		got[e.Value.(*service.CipherEntry).ID]++
	}
	if len(snap) != len(model) {
		return kit.Violation("snapshot:not-permutation", "step %d: snapshot has %d entries, list has %d", step, len(snap), len(model))
	}
	for id, n := range want {
		if got[id] != n {
			return kit.Violation("snapshot:not-permutation", "step %d: id %s appears %d times in snapshot, %d in list", step, id, got[id], n)
		}
	}
	return nil
}

func c01Connect(c C01Case, op C01Op, step int, key *kit.Key, attempt int64, model []kit.KeySpec, cl service.CipherList,
	h service.StreamHandler, dialer *kit.RecDialer, info *kit.Info, saltSizes int) (f *kit.Finding, retry bool) {
	wire, payload := c01BuildStream(op, key, attempt)
	ip := c.IPs[op.IP]

	// Reference decision.
	var matched []kit.KeySpec
	if len(wire) >= 50 {
		for _, k := range model {
			if k.Key().OpensHeader(wire[:50]) {
				matched = append(matched, k)
			}
		}
	}
	refAuth := len(matched) > 0
	allowed := map[string]bool{}
	for _, k := range matched {
		allowed[k.ID] = true
	}

	// Was the matching entry at the head of the snapshot for this IP?
	headMatch := false
	if snap := cl.SnapshotForClientIP(netipFor(ip)); len(snap) > 0 && refAuth {
		headMatch = allowed[snap[0].Value.(*service.CipherEntry).ID]
	}

	conn := kit.NewMemConn(wire, addrFor(ip, 40000+step))
	rec := kit.NewRecTCPConn()
	dialsBefore := dialer.NumDials()
	if ip == "" {
		// A connection without a remote address only reaches the authenticator in
		// real callers' terms (the relay logs RemoteAddr); judge the authenticator alone.
		return c01AuthOnly(step, conn, cl, refAuth, allowed, op), false
	}
	h.Handle(context.Background(), conn, rec)
	dials := dialer.NumDials() - dialsBefore
	closed, okClosed := rec.Closed()
	if !okClosed {
		return kit.Violation("handle:no-closed-report", "step %d: Handle returned without reporting the connection closed", step), false
	}
	authKey, wasAuth := rec.AuthKey()
	out := conn.Output()

	derivedInvalid := op.Mut == "trunc" || op.Mut == "flip" || !c01InList(model, c.Universe[op.Key])
	if saltSizes >= 2 && ((refAuth && !headMatch) || (derivedInvalid && op.Mut != "random")) {
		info.NonTrivial = true
	}
	info.Class("mut:"+op.Mut, fmt.Sprintf("refAuth:%v", refAuth), fmt.Sprintf("salt-looks-like-another-protocol:%v", op.SaltPrefix > 0))
	if refAuth && !headMatch {
		info.Class("match-not-at-head")
	}

	if !refAuth {
		if wasAuth {
			return kit.Violation("auth:unsound", "step %d: stream valid under no configured key was authenticated as %q (mut=%s, %d bytes)", step, authKey, op.Mut, len(wire)), false
		}
		if closed.Status != "ERR_CIPHER" {
			return kit.Violation("auth:wrong-status", "step %d: unauthenticated stream closed with status %q, want ERR_CIPHER", step, closed.Status), false
		}
		if dials != 0 {
			return kit.Violation("auth:dial-without-auth", "step %d: %d targets dialled for an unauthenticated stream", step, dials), false
		}
		if len(out) != 0 {
			return kit.Violation("auth:write-without-auth", "step %d: %d bytes written back to an unauthenticated client", step, len(out)), false
		}
		return nil, false
	}

	// refAuth: must authenticate with an allowed id.
	if !wasAuth {
		if closed.Status == "ERR_REPLAY_SERVER" {
			// 2^-32 chance that a random salt carries the server mark: re-randomise (rule 4).
			return kit.Violation("auth:incomplete", "step %d: valid stream refused as ERR_REPLAY_SERVER three times", step), true
		}
		return kit.Violation("auth:incomplete", "step %d: stream valid under configured key(s) %v from ip %q was not authenticated (status %s, mut=%s)", step, keysOf(allowed), ip, closed.Status, op.Mut), false
	}
	if !allowed[authKey] {
		return kit.Violation("auth:misattributed", "step %d: attributed to %q, but the ids configured with that cipher+secret are %v", step, authKey, keysOf(allowed)), false
	}
	if op.Mut == "none" {
		// Complete valid stream: the relay must have happened, too.
		if dials != 1 {
			return kit.Violation("relay:dials", "step %d: %d dials for a valid stream, want 1", step, dials), false
		}
		tgt := dialer.Conns[len(dialer.Conns)-1]
		if dialer.Dials[len(dialer.Dials)-1] != c01Target {
			return kit.Violation("relay:wrong-target", "step %d: dialled %q, want %q", step, dialer.Dials[len(dialer.Dials)-1], c01Target), false
		}
		if got := tgt.Output(); !bytes.Equal(got, payload) {
			return kit.Violation("relay:payload", "step %d: target received %d bytes, client sent %d (first 50 bytes replayed in front of the stream?)", step, len(got), len(payload)), false
		}
		dec := kit.NewStreamDecoder(matched[0].Key())
		if err := dec.Feed(out); err != nil || string(dec.Plain) != "pong-from-target" {
			return kit.Violation("relay:response", "step %d: client could not decrypt the target's response under the matched key (err=%v, got %q)", step, err, dec.Plain), false
		}
		if closed.Status != "OK" {
			return kit.Violation("relay:status", "step %d: complete valid stream closed with %q", step, closed.Status), false
		}
	}
	return nil, false
}

func c01InList(model []kit.KeySpec, k kit.KeySpec) bool {
	for _, m := range model {
		if m.Material() == k.Material() {
			return true
		}
	}
	return false
}

func keysOf(m map[string]bool) []string {
	var out []string
	for k := range m {
		out = append(out, k)
	}
	return out
}

func TestC01_Auth(t *testing.T) {
	maxKeys, maxOps := 24, 30
	if kit.Tier() == "thorough" {
		maxKeys, maxOps = 120, 60
	}
	p := kit.Prop[C01Case]{ID: "C01", Name: "Auth", Quick: 8000, Thorough: 400000, Gen: genC01(maxKeys, maxOps), Run: runC01}
	p.Execute(t)
}

func c01AuthOnly(step int, conn *kit.MemConn, cl service.CipherList, refAuth bool, allowed map[string]bool, op C01Op) *kit.Finding {
	auth := service.NewShadowsocksStreamAuthenticator(cl, nil, nil, nil)
	id, _, err := auth(conn)
	if !refAuth {
		if err == nil {
			return kit.Violation("auth:unsound", "step %d: (no remote address) stream valid under no configured key authenticated as %q", step, id)
		}
		if err.Status != "ERR_CIPHER" {
			return kit.Violation("auth:wrong-status", "step %d: (no remote address) status %q, want ERR_CIPHER", step, err.Status)
		}
		if len(conn.Output()) != 0 {
			return kit.Violation("auth:write-without-auth", "step %d: authenticator wrote %d bytes", step, len(conn.Output()))
		}
		return nil
	}
	if err != nil && err.Status == "ERR_REPLAY_SERVER" {
		return nil // 2^-32 event, not judged on this path
	}
	if err != nil {
		return kit.Violation("auth:incomplete", "step %d: (no remote address) valid stream refused with %s", step, err.Status)
	}
	if !allowed[id] {
		return kit.Violation("auth:misattributed", "step %d: (no remote address) attributed to %q, allowed %v", step, id, keysOf(allowed))
	}
	return nil
}

// ---- concurrent lookups under one key from several client addresses --------------------------------
// Clients that share an access key connect from different IP addresses at the same time (a phone and a laptop):
// every one of them authenticates, whatever bookkeeping of "last client of this key" the list does meanwhile.

type C01Conc struct {
	Keys    int   `json:"keys"`
	Pos     int   `json:"pos"` // position of the shared key in the list
	IPs     int   `json:"ips"`
	Workers int   `json:"workers"`
	PerW    int   `json:"per_worker"`
	Seed    int64 `json:"seed"`
	// >0: while the workers look keys up, the key list is replaced over and over, alternately by a list of this
	// many keys and by the original one; the shared key is in both. Every third lookup is then an invalid stream.
	Alt int `json:"alt,omitempty"`
}

func genC01Conc(t *rapid.T) C01Conc {
	c := C01Conc{Keys: rapid.SampledFrom([]int{3, 50, 800, 3000}).Draw(t, "keys"), IPs: rapid.IntRange(2, 4).Draw(t, "ips"), Workers: rapid.IntRange(2, 12).Draw(t, "workers"),
		PerW: rapid.IntRange(100, 1500).Draw(t, "perw"), Seed: rapid.Int64Range(1, 1<<40).Draw(t, "seed")}
	c.Pos = rapid.IntRange(0, c.Keys-1).Draw(t, "pos")
	if rapid.Bool().Draw(t, "updates") {
		c.Alt = rapid.SampledFrom([]int{1, c.Keys + 1, c.Keys + 7, max(1, c.Keys-1), max(1, c.Keys/2), c.Keys * 2}).Draw(t, "alt")
		c.Keys = min(c.Keys, 800)
		c.Alt = min(c.Alt, 1600)
		c.Pos = min(c.Pos, c.Keys-1)
	}
	return c
}

func runC01Conc(c C01Conc, info *kit.Info) *kit.Finding {
	keys := make([]kit.KeySpec, c.Keys)
	for i := range keys {
		keys[i] = kit.KeySpec{ID: fmt.Sprintf("id-%d", i), Cipher: kit.AllCiphers[i%len(kit.AllCiphers)], Secret: fmt.Sprintf("conc-secret-%d", i)}
	}
	shared := keys[c.Pos]
	key := shared.Key()
	cl := kit.NewCipherList(keys)
	auth := service.NewShadowsocksStreamAuthenticator(cl, nil, nil, nil)
	var bad atomic.Pointer[kit.Finding]
	var wg sync.WaitGroup
	start := make(chan struct{})
	stopUpd, updDone := make(chan struct{}), make(chan struct{})
	updates := 0
	if c.Alt > 0 {
		alt := make([]kit.KeySpec, c.Alt)
		for i := range alt {
			alt[i] = kit.KeySpec{ID: fmt.Sprintf("alt-%d", i), Cipher: kit.AllCiphers[(i+1)%len(kit.AllCiphers)], Secret: fmt.Sprintf("alt-secret-%d", i)}
		}
		alt[c.Pos%c.Alt] = shared
		go func() {
			defer close(updDone)
			<-start
			for {
				for _, l := range [][]kit.KeySpec{alt, keys} {
					select {
					case <-stopUpd:
						return
					default:
					}
					cl.Update(kit.CipherEntries(l))
					updates++
				}
			}
		}()
	} else {
		close(updDone)
	}
	for w := 0; w < c.Workers; w++ {
		wg.Add(1)
		go func(w int) {
			defer wg.Done()
			defer func() {
				if r := recover(); r != nil {
					bad.CompareAndSwap(nil, kit.Violation("auth:panic", "a lookup under a configured key panicked while %d workers from %d addresses used that key concurrently: %v", c.Workers, c.IPs, r))
				}
			}()
			ip := net.IPv4(203, 0, 113, byte(1+w%c.IPs))
			<-start
			for i := 0; i < c.PerW && bad.Load() == nil; i++ {
				if c.Alt > 0 && i%3 == 2 {
					id, _, err := auth(kit.NewMemConn(kit.DetBytes(c.Seed+int64(w)*1_000_003+int64(i), 60), &net.TCPAddr{IP: ip, Port: 1000 + i%60000}))
					if err == nil || id != "" {
						bad.CompareAndSwap(nil, kit.Violation("auth:unsound", "worker %d (client %v), connection %d: 60 random bytes were answered with id %q, error %v, while the key list was being replaced (lists of %d and %d keys)", w, ip, i, id, err, c.Keys, c.Alt))
						return
					}
					continue
				}
				wire := kit.EncodeStream(key, kit.DetBytes(c.Seed+int64(w)*1_000_003+int64(i), key.SaltSize()), append(kit.SocksAddrFor(c01Target, false), "x"...), nil)
				id, _, err := auth(kit.NewMemConn(wire, &net.TCPAddr{IP: ip, Port: 1000 + i%60000}))
				if err != nil || id != shared.ID {
					bad.CompareAndSwap(nil, kit.Violation("auth:incomplete", "worker %d (client %v), connection %d: a stream valid under configured key %s was answered with id %q, error %v, while %d workers from %d addresses used that key concurrently (%d keys, the key at position %d)", w, ip, i, shared.ID, id, err, c.Workers, c.IPs, c.Keys, c.Pos))
					return
				}
			}
		}(w)
	}
	close(start)
	wg.Wait()
	close(stopUpd)
	<-updDone
	if f := bad.Load(); f != nil {
		if c.Alt > 0 {
			f.Msg += fmt.Sprintf(" [the key list was replaced %d times meanwhile, alternating between %d and %d keys, the key in both]", updates, c.Keys, c.Alt)
		}
		return f
	}
	info.NonTrivial, info.Steps = true, c.Workers*c.PerW
	if c.Alt > 0 {
		info.Class("with_updates")
	}
	return nil
}

func TestC01_Concurrent(t *testing.T) {
	p := kit.Prop[C01Conc]{ID: "C01", Name: "Concurrent", Quick: 24, Thorough: 2000, Gen: genC01Conc, Run: runC01Conc}
	p.Execute(t)
}
