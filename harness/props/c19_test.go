package props

// C19 — shared server state is free of data races under concurrent use.
//
// These tests are built with -race (GORACE=halt_on_error=1: a report kills the shard, whose
// journalled case becomes the replay file). Each generated workload also carries a
// sequential-consistency oracle from the owning property.

import (
	"context"
	"fmt"
	"net"
	"sync"
	"sync/atomic"
	"testing"
	"time"

	"github.com/Jigsaw-Code/outline-ss-server/service"
	"pgregory.net/rapid"
	"verif/harness/kit"
)

// ---- key list: lookups x Update x usage marking --------------------------------------

type C19Keys struct {
	Universe []kit.KeySpec `json:"universe"`
	Lookers  int           `json:"lookers"`
	Lookups  int           `json:"lookups"`
	Updates  int           `json:"updates"`
	Seed     int64         `json:"seed"`
}

func genC19Keys(t *rapid.T) C19Keys {
	return C19Keys{Universe: kit.GenKeyUniverse(t, 3, 12), Lookers: rapid.IntRange(2, 16).Draw(t, "lookers"), Lookups: rapid.IntRange(20, 200).Draw(t, "lookups"),
		Updates: rapid.IntRange(5, 100).Draw(t, "updates"), Seed: rapid.Int64Range(1, 1<<40).Draw(t, "seed")}
}

func runC19Keys(c C19Keys, info *kit.Info) *kit.Finding {
	// K is in every list, L (a material of its own) in none.
	K := kit.KeySpec{ID: "always", Cipher: kit.Chacha, Secret: "always-there"}
	L := kit.KeySpec{ID: "never", Cipher: kit.AES256, Secret: "never-there"}
	// R alternates: in the list in even rounds, out in odd rounds, and out at the end.
	R := kit.KeySpec{ID: "revoked-at-the-end", Cipher: kit.AES192, Secret: "comes-and-goes"}
	mk := func(round int) []kit.KeySpec {
		var l []kit.KeySpec
		if round%2 == 0 && round < c.Updates {
			l = append(l, R)
		}
		for i, k := range c.Universe {
			if (int(c.Seed)+round+i)%3 != 0 {
				l = append(l, k)
			}
		}
		pos := (round + int(c.Seed)) % (len(l) + 1)
		return append(append(append([]kit.KeySpec(nil), l[:pos]...), K), l[pos:]...)
	}
	cl := kit.NewCipherList(mk(0))
	auth := service.NewShadowsocksStreamAuthenticator(cl, nil, nil, nil)
	var fnd atomic.Pointer[kit.Finding]
	var wg sync.WaitGroup
	var stop atomic.Bool
	wg.Add(1)
	go func() {
		defer wg.Done()
		for r := 1; r <= c.Updates && !stop.Load(); r++ {
			cl.Update(kit.CipherEntries(mk(r)))
			time.Sleep(time.Duration(r%3) * 50 * time.Microsecond)
		}
	}()
	for g := 0; g < c.Lookers; g++ {
		wg.Add(1)
		go func(g int) {
			defer wg.Done()
			ip := net.IPv4(203, 0, 113, byte(g%4))
			for i := 0; i < c.Lookups; i++ {
				ks := K
				if i%3 == 2 {
					ks = L
				}
				if i%5 == 4 {
					ks = R // during the churn either answer is right
				}
				key := ks.Key()
				wire := kit.EncodeStream(key, kit.DetBytes(c.Seed+int64(g*100000+i), key.SaltSize()), append(kit.SocksAddrFor("192.0.2.9:80", false), "x"...), nil)
				id, _, err := auth(kit.NewMemConn(wire, &net.TCPAddr{IP: ip, Port: 1000 + i}))
				if ks.ID == "always" && (err != nil || id != "always") {
					fnd.CompareAndSwap(nil, kit.Violation("keylist:lookup-lost-key", "a key present in every version of the list failed to authenticate during concurrent updates (id=%q err=%v)", id, err))
				}
				if ks.ID == "never" && err == nil {
					fnd.CompareAndSwap(nil, kit.Violation("keylist:phantom-key", "a key present in no version of the list authenticated as %q", id))
				}
			}
		}(g)
	}
	wg.Wait()
	stop.Store(true)
	if f := fnd.Load(); f != nil {
		return f
	}
	// After the churn: the final list (installed by the last update) does not contain R, whatever raced with it.
	cl.Update(kit.CipherEntries(mk(c.Updates)))
	for g := 0; g < 4; g++ {
		key := R.Key()
		wire := kit.EncodeStream(key, kit.DetBytes(c.Seed+int64(9000000+g), key.SaltSize()), append(kit.SocksAddrFor("192.0.2.9:80", false), "x"...), nil)
		if id, _, err := auth(kit.NewMemConn(wire, &net.TCPAddr{IP: net.IPv4(203, 0, 113, byte(g)), Port: 99})); err == nil {
			return kit.Violation("keylist:revoked-key-resurrected", "a key that is not in the final list authenticated as %q after concurrent lookups and replacements: a lookup racing with a replacement put it back", id)
		}
	}
	info.NonTrivial, info.Steps = true, c.Lookers*c.Lookups
	return nil
}

func TestC19_KeyList(t *testing.T) {
	p := kit.Prop[C19Keys]{ID: "C19", Name: "KeyList", Quick: 120, Thorough: 6000, Gen: genC19Keys, Run: runC19Keys, Journal: true}
	p.Execute(t)
}

// ---- replay cache: adds x Resize --------------------------------------------------------

type C19Cache struct {
	Cap     int   `json:"cap"`
	Adders  int   `json:"adders"`
	Adds    int   `json:"adds"`
	Dups    int   `json:"dups"` // every handshake is presented this many times (by different goroutines)
	Resizes int   `json:"resizes"`
	Seed    int64 `json:"seed"`
}

func genC19Cache(t *rapid.T) C19Cache {
	return C19Cache{Cap: rapid.SampledFrom([]int{5000, 20000}).Draw(t, "cap"), Adders: rapid.IntRange(2, 16).Draw(t, "adders"), Adds: rapid.IntRange(20, 200).Draw(t, "adds"),
		Dups: rapid.IntRange(1, 4).Draw(t, "dups"), Resizes: rapid.IntRange(1, 50).Draw(t, "resizes"), Seed: rapid.Int64Range(1, 1<<40).Draw(t, "seed")}
}

func runC19Cache(c C19Cache, info *kit.Info) *kit.Finding {
	rc := service.NewReplayCache(c.Cap)
	// all capacities used are >= the total number of adds, so nothing may be forgotten:
	// every distinct handshake has exactly one winner
	total := c.Adders * c.Adds
	if total > 4000 {
		c.Adds = 4000 / c.Adders
		total = c.Adders * c.Adds
	}
	wins := make([]atomic.Int32, c.Adds)
	var wg sync.WaitGroup
	var stop atomic.Bool
	wg.Add(1)
	go func() {
		defer wg.Done()
		for r := 0; r < c.Resizes && !stop.Load(); r++ {
			rc.Resize([]int{5000, 20000, 8000, 12000}[r%4])
			time.Sleep(20 * time.Microsecond)
		}
	}()
	for g := 0; g < c.Adders; g++ {
		wg.Add(1)
		go func(g int) {
			defer wg.Done()
			for i := 0; i < c.Adds; i++ {
				// every adder presents the same handshakes: exactly one of them may win each
				k := (i + g*c.Dups) % c.Adds
				if rc.Add(fmt.Sprintf("key-%d", k%3), kit.DetBytes(c.Seed+int64(k), 32)) {
					wins[k].Add(1)
				}
			}
		}(g)
	}
	wg.Wait()
	stop.Store(true)
	for i := range wins {
		if n := wins[i].Load(); n != 1 {
			return kit.Violation("cache:concurrent-winners", "handshake %d was presented by %d goroutines concurrently with resizes (all capacities >= the number of handshakes): %d presentations accepted, want exactly 1", i, c.Adders, n)
		}
	}
	info.NonTrivial, info.Steps = true, total
	return nil
}

// The history against switching the cache off and on again (capacity 0 disables it without forgetting anything):
// handshakes recorded before stay refused afterwards, whatever ran in between, as long as fewer handshakes than
// the capacity were ever added - in every sequential order of these calls nothing is discarded.
type C19CacheZero struct {
	Old    int   `json:"old"`
	Adders int   `json:"adders"`
	Adds   int   `json:"adds"`
	Seed   int64 `json:"seed"`
}

func genC19CacheZero(t *rapid.T) C19CacheZero {
	return C19CacheZero{Old: rapid.IntRange(1, 200).Draw(t, "old"), Adders: rapid.IntRange(2, 16).Draw(t, "adders"), Adds: rapid.IntRange(50, 1000).Draw(t, "adds"), Seed: rapid.Int64Range(1, 1<<40).Draw(t, "seed")}
}

func runC19CacheZero(c C19CacheZero, info *kit.Info) *kit.Finding {
	const capacity = 20000
	if c.Adders*c.Adds > 12000 {
		c.Adds = 12000 / c.Adders
	}
	rc := service.NewReplayCache(capacity)
	for i := 0; i < c.Old; i++ {
		rc.Add("old", kit.DetBytes(c.Seed+int64(i), 32)) // (a refusal here could only be a hash collision among the old ones)
	}
	var wg sync.WaitGroup
	var done atomic.Bool
	var toggles atomic.Int64
	resizer := make(chan struct{})
	go func() {
		defer close(resizer)
		for !done.Load() {
			rc.Resize(0)
			rc.Resize(capacity)
			toggles.Add(1)
		}
	}()
	var refused atomic.Int64
	for g := 0; g < c.Adders; g++ {
		wg.Add(1)
		go func(g int) {
			defer wg.Done()
			for i := 0; i < c.Adds; i++ {
				if !rc.Add("new", kit.DetBytes(c.Seed+1_000_000+int64(g)*100_000+int64(i), 32)) {
					refused.Add(1)
				}
			}
		}(g)
	}
	wg.Wait()
	done.Store(true)
	<-resizer
	rc.Resize(capacity)
	if n := refused.Load(); n > 0 {
		// the history is keyed by a 32-bit hash: with ~12 000 entries about one case in sixty has two distinct
		// handshakes that collide, and the later one is refused by design - counted, not judged
		info.Class("fresh-handshake-refused(hash-collision)")
	}
	accepted := 0
	for i := 0; i < c.Old; i++ {
		if rc.Add("old", kit.DetBytes(c.Seed+int64(i), 32)) {
			accepted++
		}
	}
	if accepted > 0 {
		return kit.Violation("cache:history-lost", "%d of %d handshakes recorded earlier were accepted again after %d goroutines added %d fresh ones while the cache was switched off and on %d times (capacity %d was never reached: no sequential order of these calls forgets anything)", accepted, c.Old, c.Adders, c.Adders*c.Adds, toggles.Load(), capacity)
	}
	info.NonTrivial, info.Steps = toggles.Load() >= 2, c.Adders*c.Adds
	return nil
}

func TestC19_ReplayCacheZero(t *testing.T) {
	p := kit.Prop[C19CacheZero]{ID: "C19", Name: "ReplayCacheZero", Quick: 100, Thorough: 10000, Gen: genC19CacheZero, Run: runC19CacheZero, Journal: true}
	p.Execute(t)
}

func TestC19_ReplayCache(t *testing.T) {
	p := kit.Prop[C19Cache]{ID: "C19", Name: "ReplayCache", Quick: 200, Thorough: 10000, Gen: genC19Cache, Run: runC19Cache, Journal: true}
	p.Execute(t)
}

// ---- association table: many clients through Handle -------------------------------------

type C19NAT struct {
	Clients int   `json:"clients"`
	Sends   int   `json:"sends"`
	Replies bool  `json:"replies"`
	Seed    int64 `json:"seed"`
}

func genC19NAT(t *rapid.T) C19NAT {
	return C19NAT{Clients: rapid.IntRange(2, 24).Draw(t, "clients"), Sends: rapid.IntRange(1, 20).Draw(t, "sends"), Replies: rapid.Bool().Draw(t, "replies"), Seed: rapid.Int64Range(1, 1<<40).Draw(t, "seed")}
}

func runC19NAT(c C19NAT, info *kit.Info) *kit.Finding {
	ks := kit.KeySpec{ID: "k", Cipher: kit.Chacha, Secret: "s"}
	key := ks.Key()
	met := &kit.RecService{}
	ph := service.NewPacketHandler(150*time.Millisecond, kit.NewCipherList([]kit.KeySpec{{ID: "other", Cipher: kit.AES128, Secret: "o"}, ks}), met, nil)
	ph.SetTargetIPValidator(kit.PermitAll)
	front, err := kit.ServeUDP("127.0.0.1", ph)
	if err != nil {
		info.Skipped = err.Error()
		return nil
	}
	tgt, err := kit.NewUDPPeer("127.0.0.1", 0)
	if err != nil {
		front.Close(time.Second)
		info.Skipped = err.Error()
		return nil
	}
	defer tgt.Close()
	// the target echoes every datagram back to its sender
	var echoed atomic.Int64
	stopEcho := make(chan struct{})
	go func() {
		for {
			select {
			case <-stopEcho:
				return
			default:
			}
			if d, ok := tgt.Pop(20 * time.Millisecond); ok {
				echoed.Add(1)
				if c.Replies {
					tgt.Send(d.Data, d.From)
				}
			}
		}
	}()
	var wg sync.WaitGroup
	var got atomic.Int64
	for i := 0; i < c.Clients; i++ {
		wg.Add(1)
		go func(i int) {
			defer wg.Done()
			cl, err := kit.NewUDPPeer("127.0.0.1", 0)
			if err != nil {
				return
			}
			defer cl.Close()
			for k := 0; k < c.Sends; k++ {
				plain := append(kit.SocksAddr("127.0.0.1", tgt.Addr.Port, false), fmt.Sprintf("c%d-%d", i, k)...)
				cl.Send(kit.PackUDP(key, kit.DetBytes(c.Seed+int64(i*1000+k), key.SaltSize()), plain), front.Addr)
				if c.Replies {
					if d, ok := cl.Pop(2 * time.Second); ok {
						if _, p, err := kit.UnpackUDP(key, d.Data); err == nil && len(p) > 7 {
							got.Add(1)
						}
					}
				}
				if (k+i)%5 == 4 {
					// let the association expire and be re-created; the clients are out of phase, so that one client's
					// expiry (a delete in the table) coincides with another one's new association (an insert)
					time.Sleep(200 * time.Millisecond)
				}
			}
		}(i)
	}
	wg.Wait()
	want := int64(c.Clients * c.Sends)
	kit.WaitFor(2*time.Second, func() bool { return echoed.Load() >= want })
	close(stopEcho)
	if !front.Close(3 * time.Second) {
		return kit.Violation("nat:handle-did-not-return", "Handle did not return after the concurrent workload")
	}
	if echoed.Load() != want {
		return kit.Violation("nat:concurrent-loss", "%d clients sent %d datagrams in total, the target received %d", c.Clients, want, echoed.Load())
	}
	if c.Replies && got.Load() != want {
		return kit.Violation("nat:concurrent-reply-loss", "%d replies expected at the clients, %d arrived and decrypted", want, got.Load())
	}
	kit.WaitFor(2*time.Second, func() bool {
		for _, r := range met.UDPAssocs() {
			if r.Removed() != 1 {
				return false
			}
		}
		return true
	})
	for _, r := range met.UDPAssocs() {
		if r.Removed() != 1 {
			return kit.Violation("nat:removal-count", "association of %s removed %d times after shutdown", r.Client, r.Removed())
		}
	}
	info.NonTrivial, info.Steps = true, int(want)
	return nil
}

func TestC19_NAT(t *testing.T) {
	p := kit.Prop[C19NAT]{ID: "C19", Name: "NAT", Quick: 32, Thorough: 1600, Gen: genC19NAT, Run: runC19NAT, Journal: true}
	p.Execute(t)
}

// ---- shared listeners and collectors: the concurrent workloads of C12/C13/C17 under -race ----

func TestC19_Listeners(t *testing.T) {
	p := kit.Prop[C13Case]{ID: "C19", Name: "Listeners", Quick: 80, Thorough: 5000, Gen: func(t *rapid.T) C13Case { c := genC13(t); c.Reps = 5; return c }, Run: runC13, Journal: true}
	p.Execute(t)
}

func TestC19_SharedDelivery(t *testing.T) {
	p := kit.Prop[C12Case]{ID: "C19", Name: "SharedDelivery", Quick: 80, Thorough: 5000, Gen: func(t *rapid.T) C12Case { return genC12(rapid.Bool().Draw(t, "packet"), 20)(t) }, Run: runC12Once, Journal: true}
	p.Execute(t)
}

func TestC19_Collectors(t *testing.T) {
	p := kit.Prop[C17Conc]{ID: "C19", Name: "Collectors", Quick: 80, Thorough: 4000, Gen: func(t *rapid.T) C17Conc {
		c := genC17Conc(t)
		c.Ops = min(c.Ops, 120)
		// half of the workloads: every worker is the same client and they start together, round by round, with a slow
		// location database, so that check-then-act bugs between two critical sections get their window
		if c.Burst = rapid.Bool().Draw(t, "burst2"); c.Burst {
			c.LatencyUs = 50
		}
		return c
	}, Run: runC17Conc, Journal: true}
	p.Execute(t)
}

// TCP service end to end under -race: concurrent connections of every outcome (C15's workload).
func TestC19_TCPService(t *testing.T) {
	p := kit.Prop[C15Case]{ID: "C19", Name: "TCPService", Quick: 40, Thorough: 3000, Gen: genC15(12), Run: runC15, Journal: true}
	p.Execute(t)
}

var _ = context.Background

// One packet handler serving several UDP sockets at once (as a service with several listeners does): the
// handler's own state is shared between the Handle loops.
func TestC19_PacketService(t *testing.T) {
	gen := func(t *rapid.T) C05Shared {
		c := genC05Shared(t)
		c.PerClient = rapid.IntRange(100, 600).Draw(t, "perRace")
		return c
	}
	p := kit.Prop[C05Shared]{ID: "C19", Name: "PacketService", Quick: 12, Thorough: 1500, Gen: gen, Run: runC05Shared}
	p.Execute(t)
}
