package props

import "container/list"

type listElem = list.Element
