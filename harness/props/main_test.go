package props

import (
	"os"
	"testing"

	"verif/harness/kit"
)

func TestMain(m *testing.M) {
	kit.InstallLogCapture()
	kit.InstallFakeDNS() // once, before any goroutine of the code under test can be reading net.DefaultResolver
	os.Exit(m.Run())
}
