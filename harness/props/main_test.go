package props

import (
	"os"
	"testing"

	"verif/harness/kit"
)

func TestMain(m *testing.M) {
	kit.InstallLogCapture()
	os.Exit(m.Run())
}
