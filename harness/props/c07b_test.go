package props

// C07 (across listeners, services and reloads) — the replay history is owned by the server, so a
// handshake seen before a configuration reload, or on another service's listener, is still refused.
// Runs the real main package in the executor with -replay_history N.

import (
	"fmt"
	"testing"
	"time"

	"pgregory.net/rapid"
	"verif/harness/kit"
)

type C07ROp struct {
	Kind  string `json:"kind"` // present | reload
	Svc   int    `json:"svc"`
	Label int    `json:"label"`
}

type C07RCase struct {
	History int       `json:"history"`
	Configs []GConfig `json:"configs"`
	Ops     []C07ROp  `json:"ops"`
	Seed    int64     `json:"seed"`
}

func genC07R(t *rapid.T) C07RCase {
	c := C07RCase{History: rapid.SampledFrom([]int{1, 2, 5, 100, 20000}).Draw(t, "history"), Seed: rapid.Int64Range(1, 1<<40).Draw(t, "seed")}
	uni := []kit.KeySpec{{ID: "x", Cipher: kit.AES128, Secret: "x"}, {ID: "y", Cipher: kit.AES256, Secret: "y"}}
	n := rapid.IntRange(1, 16).Draw(t, "nops")
	c.Configs = append(c.Configs, genConfig(t, uni, "c0."))
	for i := 0; i < n; i++ {
		op := C07ROp{Kind: rapid.SampledFrom([]string{"present", "present", "present", "reload"}).Draw(t, "kind"), Svc: rapid.IntRange(0, 1).Draw(t, "svc"), Label: rapid.IntRange(0, 5).Draw(t, "label")}
		if rapid.IntRange(0, 4).Draw(t, "fresh") == 0 {
			op.Label = 100 + i
		}
		if op.Kind == "reload" {
			c.Configs = append(c.Configs, genConfig(t, uni, fmt.Sprintf("c%d.", len(c.Configs))))
		}
		c.Ops = append(c.Ops, op)
	}
	return c
}

func runC07R(c C07RCase, info *kit.Info) *kit.Finding {
	s, why := newMainSession(c.Seed)
	if s == nil {
		info.Skipped = why
		return nil
	}
	defer s.close()
	shared := kit.KeySpec{ID: "shared", Cipher: kit.Chacha, Secret: "replay-shared"}
	key := shared.Key()
	// two retained services with the same key id and material, on slots 8 and 9
	mk := func(i int) string {
		cfg := withRetained(c.Configs[i], nil)
		var out GConfig
		for _, sv := range cfg.Services[:len(cfg.Services)-1] {
			var ls []GListener
			for _, l := range sv.Listeners {
				if l.Slot != 8 {
					ls = append(ls, l)
				}
			}
			sv.Listeners = ls
			out.Services = append(out.Services, sv)
		}
		out.Legacy = cfg.Legacy
		out.Services = append(out.Services, GService{Listeners: []GListener{{"tcp", "127.0.0.1", 8}}, Keys: []kit.KeySpec{shared}},
			GService{Listeners: []GListener{{"tcp", "127.0.0.1", 9}}, Keys: []kit.KeySpec{{ID: "other", Cipher: kit.AES192, Secret: "o"}, shared}})
		return s.writeConfig(out.renderYAML(s.pt))
	}
	r, err := s.ex.Do(map[string]any{"cmd": "run", "config": mk(0), "replay_history": c.History}, 30*time.Second)
	if err != nil {
		return execFailure(s, err)
	}
	if !r.OK {
		if portTakenByOthers(r.Err) {
			info.Skipped = "port taken by another process"
			return nil
		}
		return kit.Violation("config:valid-config-rejected", "%s", r.Err)
	}
	addrs := []string{s.pt.addr("127.0.0.1", 8), s.pt.addr("127.0.0.1", 9)}
	m := &c07Model{cap: c.History}
	cfgIdx := 0
	lastGen := map[int]int{}
	lastSvc := map[int]int{}
	crossed := false
	for i, op := range c.Ops {
		info.Steps++
		if op.Kind == "reload" {
			cfgIdx++
			r, err := s.ex.Do(map[string]any{"cmd": "reload", "config": mk(cfgIdx)}, 30*time.Second)
			if err != nil {
				return execFailure(s, err)
			}
			if !r.OK {
				if portTakenByOthers(r.Err) {
					info.Skipped = "port taken by another process"
					return nil
				}
				return kit.Violation("config:valid-config-rejected", "reload: %s", r.Err)
			}
			info.Class("reload")
			continue
		}
		salt := kit.DetBytes(c.Seed*1_000_003+int64(op.Label), key.SaltSize())
		conn, err := kit.DialTCP(addrs[op.Svc], 3*time.Second)
		if err != nil {
			if kit.EnvNetError(err) {
				info.Skipped = "host out of ports: " + err.Error()
				return nil
			}
			return kit.Violation("reload:refused", "op %d: cannot connect to retained listener %s: %v", i, addrs[op.Svc], err)
		}
		local := conn.LocalAddr().String()
		from := len(s.ex.Events)
		conn.Write(kit.EncodeStream(key, salt, append(kit.SocksAddr("127.0.0.1", 9, false), "r"...), nil))
		conn.CloseWrite()
		idx, ok, err := s.ex.WaitEvent(from, 5*time.Second, func(e kit.ExecEvent) bool { return e.Kind == "tcp_closed" && e.Remote == local })
		conn.Close()
		if err != nil {
			return execFailure(s, err)
		}
		if !ok {
			return kit.Violation("config:connection-not-handled", "op %d: connection never reported closed", i)
		}
		status := s.ex.Events[idx].Status
		exp := m.expect(op.Label)
		if g, seen := lastGen[op.Label]; seen && (g != cfgIdx || lastSvc[op.Label] != op.Svc) && exp == c07MustRefuse {
			crossed = true
		}
		switch exp {
		case c07MustRefuse:
			if status != "ERR_REPLAY_CLIENT" {
				return kit.Violation("server:replay-served", "op %d: handshake #%d was presented %s and is within the history of %d, but was served again on service %d after %d reload(s): status %q", i, op.Label, describeEarlier(lastGen[op.Label], lastSvc[op.Label]), c.History, op.Svc, cfgIdx-lastGen[op.Label], status)
			}
			for _, e := range s.ex.Events[from:] {
				if e.Remote == local && e.Kind == "tcp_auth" {
					return kit.Violation("server:replay-served", "op %d: a refused replay was reported authenticated", i)
				}
			}
			info.Class("replay-refused")
		case c07MustAccept:
			if status == "ERR_REPLAY_CLIENT" || status == "ERR_CIPHER" {
				return kit.Violation("server:fresh-refused", "op %d: never-seen handshake #%d closed with %q", i, op.Label, status)
			}
		}
		m.record(op.Label)
		lastGen[op.Label], lastSvc[op.Label] = cfgIdx, op.Svc
	}
	info.NonTrivial = crossed
	if crossed {
		info.Class("replay-across-reload-or-service")
	}
	return nil
}

func describeEarlier(gen, svc int) string {
	return fmt.Sprintf("on service %d under configuration generation %d", svc, gen)
}

func TestC07_Reload(t *testing.T) {
	p := kit.Prop[C07RCase]{ID: "C07", Name: "Reload", Quick: 120, Thorough: 8000, Gen: genC07R, Run: runC07R}
	p.Execute(t)
}
