package props

// C06 (real-socket engine) — what in-memory conns cannot show: close kind (FIN,
// never RST), nothing readable on the socket, not closed before the timeout
// (sound lower bound from a client-side instant), closed within a bound after it,
// and post-dial corruption leaving the connection open and silent.

import (
	"context"
	"errors"
	"fmt"
	"io"
	"net"
	"sync"
	"sync/atomic"
	"syscall"
	"testing"
	"time"

	"github.com/Jigsaw-Code/outline-sdk/transport"
	"github.com/Jigsaw-Code/outline-ss-server/service"
	"pgregory.net/rapid"
	"verif/harness/kit"
)

const c06T = 250 * time.Millisecond

type C06Probe struct {
	Kind       string `json:"kind"` // random | trunc | flip | wrongkey | replay | reflect | badatyp | corruptaddr | shortheader | postdial
	KeyIdx     int    `json:"key_idx"`
	Arg        int    `json:"arg"`
	Seed       int64  `json:"seed"`
	PayloadLen int    `json:"payload_len"`
	Client     string `json:"client"` // hold | fin
	FinAfterMs int    `json:"fin_after_ms"`
}

type C06Batch struct {
	Keys   []kit.KeySpec `json:"keys"`
	CacheN int           `json:"cache_n"`
	Probes []C06Probe    `json:"probes"`
	// >0: the listener is closed this long after the probes have started (as a reload that drops the listener
	// does); connections accepted before that are still owed the full silence
	CloseListenerMs int `json:"close_listener_ms,omitempty"`
}

func genC06Batch(maxProbes int) func(t *rapid.T) C06Batch {
	return func(t *rapid.T) C06Batch {
		c := C06Batch{Keys: kit.GenKeyUniverse(t, 1, 8), CacheN: rapid.SampledFrom([]int{0, 100}).Draw(t, "cache")}
		n := rapid.IntRange(1, maxProbes).Draw(t, "nprobes")
		for i := 0; i < n; i++ {
			p := C06Probe{Kind: rapid.SampledFrom([]string{"random", "random", "trunc", "flip", "wrongkey", "replay", "replay_burst", "reflect", "badatyp", "corruptaddr", "shortheader", "postdial", "postdial_fin"}).Draw(t, "kind")}
			p.KeyIdx = rapid.IntRange(0, len(c.Keys)-1).Draw(t, "key")
			p.Seed = rapid.Int64Range(1, 1<<40).Draw(t, "seed")
			p.PayloadLen = rapid.SampledFrom([]int{0, 1, 30, 1000, 20000}).Draw(t, "plen")
			switch p.Kind {
			case "random":
				p.Arg = rapid.OneOf(rapid.SampledFrom([]int{0, 1, 10, 49, 50, 51, 500, 5000, 70000}), rapid.IntRange(0, 200)).Draw(t, "len")
			case "trunc":
				p.Arg = rapid.IntRange(0, 120).Draw(t, "at")
			case "flip":
				p.Arg = rapid.IntRange(0, 130*8-1).Draw(t, "bit")
			case "badatyp":
				p.Arg = rapid.SampledFrom([]int{0, 2, 5, 255}).Draw(t, "atyp")
			case "shortheader":
				p.Arg = rapid.IntRange(1, 6).Draw(t, "hdrlen")
			case "replay_burst":
				p.Arg = rapid.IntRange(0, 6).Draw(t, "copies")
			case "postdial", "postdial_fin":
				// where the mid-relay chunk is corrupted: 0 = length block, 1 = length tag, 2 = payload, 3 = payload tag
				p.Arg = rapid.IntRange(0, 3).Draw(t, "where")
			}
			p.Client = rapid.SampledFrom([]string{"hold", "hold", "fin"}).Draw(t, "client")
			p.FinAfterMs = rapid.SampledFrom([]int{0, 5, 60, 120}).Draw(t, "finAfter")
			c.Probes = append(c.Probes, p)
		}
		if rapid.IntRange(0, 3).Draw(t, "closeListener") == 0 {
			c.CloseListenerMs = rapid.SampledFrom([]int{40, 90, 150}).Draw(t, "closeAt")
		}
		return c
	}
}

type c06World struct {
	keys           []kit.KeySpec
	front          *kit.TCPFront
	tgt            *kit.TCPTarget
	met            *kit.RecService
	metByRA        sync.Map
	listenerClosed atomic.Bool
	// dial accounting for the listener-close variant: the listener may only be closed once every connection the
	// probes have established has been accepted (closing a listening socket resets its backlog - the tester's
	// doing, not the server's)
	dialed atomic.Int32
}

func newC06World(keys []kit.KeySpec, cacheN int) (*c06World, error) {
	w := &c06World{keys: keys, met: &kit.RecService{}}
	var cache *service.ReplayCache
	if cacheN > 0 {
		rc := service.NewReplayCache(cacheN)
		cache = &rc
	}
	h := service.NewStreamHandler(service.NewShadowsocksStreamAuthenticator(kit.NewCipherList(keys), cache, nil, nil), c06T)
	h.SetTargetDialer(kit.PermissiveDialer)
	var err error
	if w.tgt, err = kit.NewTCPTarget("127.0.0.1"); err != nil {
		return nil, err
	}
	w.front, err = kit.ServeTCP("127.0.0.1", func(ctx context.Context, conn transport.StreamConn) {
		h.Handle(ctx, conn, w.met.AddOpenTCPConnection(conn))
	})
	if err != nil {
		w.tgt.Close()
		return nil, err
	}
	return w, nil
}

func (w *c06World) close() {
	w.tgt.Close()
	w.front.Close(3 * time.Second)
}

func isReset(err error) bool {
	return errors.Is(err, syscall.ECONNRESET) || errors.Is(err, syscall.EPIPE)
}

// c06Wire builds the probe bytes and says, by the independent reference, how the server must treat it.
// class: "probe" (does not authenticate), "drain" (authenticates, then invalid before a target is known),
// "postdial" (valid request, corrupt chunk mid-relay), "relay" (a complete valid request: not judged).
func c06Wire(w *c06World, p C06Probe, attempt int64) (wire []byte, class string, preface []byte) {
	ks := w.keys[p.KeyIdx]
	key := ks.Key()
	seed := p.Seed + attempt*104729
	addr := kit.SocksAddrFor(w.tgt.Addr, false)
	valid := func(k *kit.Key, a []byte) []byte {
		plain := append(append([]byte(nil), a...), kit.DetBytes(seed+1, p.PayloadLen)...)
		return kit.EncodeStream(k, kit.DetBytes(seed, k.SaltSize()), plain, []int{len(a)})
	}
	special := ""
	switch p.Kind {
	case "random":
		wire = kit.DetBytes(seed, p.Arg)
	case "trunc":
		wire = valid(key, addr)
		wire = wire[:min(p.Arg, len(wire))]
	case "flip":
		wire = valid(key, addr)
		if p.Arg/8 < len(wire) {
			wire[p.Arg/8] ^= 1 << (p.Arg % 8)
		}
	case "wrongkey":
		wire = valid(kit.NewKey(ks.Cipher, ks.Secret+"-not-configured"), addr)
	case "replay":
		wire = valid(key, addr)
		preface = wire
		special = "replay"
	case "reflect":
		salt := make([]byte, key.SaltSize())
		service.NewServerSaltGenerator(ks.Secret).GetSalt(salt)
		wire = kit.EncodeStream(key, salt, append(append([]byte(nil), addr...), kit.DetBytes(seed+1, p.PayloadLen)...), nil)
		if key.SaltSize() >= 20 {
			special = "reflect"
		}
	case "badatyp":
		wire = valid(key, append([]byte{byte(p.Arg)}, addr[1:]...))
	case "corruptaddr":
		wire = valid(key, addr)
		wire[key.SaltSize()+18+int(seed%23)] ^= 0x10
	case "shortheader":
		wire = kit.EncodeStream(key, kit.DetBytes(seed, key.SaltSize()), addr[:min(p.Arg, len(addr)-1)], nil)
	case "postdial", "postdial_fin":
		e := kit.NewStreamEncoder(key, kit.DetBytes(seed, key.SaltSize()))
		wire = e.Chunk(append(append([]byte(nil), addr...), "first"...))
		bad := e.Chunk([]byte("second chunk, corrupted on the wire"))
		switch p.Arg {
		case 0:
			bad[0] ^= 0x40 // length block
		case 1:
			bad[2+5] ^= 0x40 // length tag
		case 2:
			bad[18+4] ^= 0x40 // payload
		default:
			bad[len(bad)-3] ^= 0x40 // payload tag
		}
		wire = append(wire, bad...)
		wire = append(wire, e.Chunk([]byte("third"))...)
		return wire, p.Kind, nil
	}
	var matched *kit.Key
	if len(wire) >= 50 {
		for _, k := range w.keys {
			if kk := k.Key(); kk.OpensHeader(wire[:50]) {
				matched = kk
				break
			}
		}
	}
	if matched == nil || special != "" {
		if special == "replay" && matched == nil {
			preface = nil
		}
		return wire, "probe", preface
	}
	dec := kit.NewStreamDecoder(matched)
	dec.Feed(wire)
	if _, _, _, err := kit.ParseSocksAddr(dec.Plain); err == nil {
		return wire, "relay", nil
	}
	return wire, "drain", nil
}

// c06One runs one probe connection and judges it. upper: whether to judge upper time bounds.
func c06One(w *c06World, p C06Probe, cacheOn bool, attempt int64, dialNote ...func()) (f *kit.Finding, boundHit bool, class string) {
	wire, class, preface := c06Wire(w, p, attempt)
	if class == "relay" {
		return nil, false, class
	}
	if p.Kind == "replay" {
		if !cacheOn || preface == nil {
			return nil, false, "relay"
		}
		// original presentation: served, then closed by us
		c0, err := kit.DialTCP(w.front.Addr, 5*time.Second)
		if err != nil {
			if kit.EnvNetError(err) {
				return nil, false, "relay"
			}
			return kit.Violation("probe:dial-refused", "%v", err), false, class
		}
		c0.Write(preface)
		tc := w.tgt.Accept(5 * time.Second)
		c0.Close()
		if tc == nil {
			return kit.Violation("probe:original-not-served", "first presentation of a valid handshake did not reach the target"), true, class
		}
		tc.Close()
	}
	t0 := time.Now()
	conn, err := kit.DialTCP(w.front.Addr, 5*time.Second)
	if err == nil {
		w.dialed.Add(1)
	}
	for _, note := range dialNote {
		note()
	}
	if err != nil {
		if kit.EnvNetError(err) || w.listenerClosed.Load() {
			return nil, false, "relay"
		}
		return kit.Violation("probe:dial-refused", "%v", err), false, class
	}
	defer conn.Close()
	tc := conn
	if _, err := tc.Write(wire); err != nil {
		return kit.Violation("probe:write-failed", "client write of %d probe bytes failed: %v (closed before the timeout?)", len(wire), err), false, class
	}
	tW := time.Now()
	buf := make([]byte, 4096)
	readUntil := func(deadline time.Time) (n int, err error) {
		tc.SetReadDeadline(deadline)
		return io.ReadFull(tc, buf)
	}
	desc := fmt.Sprintf("%s/%s arg=%d len=%d", p.Kind, p.Client, p.Arg, len(wire))

	if class == "postdial" || class == "postdial_fin" || class == "drain" {
		// must stay open and silent while the client keeps the connection open
		var ptc *net.TCPConn
		if class == "postdial" || class == "postdial_fin" {
			if ptc = w.tgt.Accept(5 * time.Second); ptc == nil {
				return kit.Violation("drain:no-target-connection", "valid request (%s) did not reach the target", desc), true, class
			}
			defer ptc.Close()
			if class == "postdial_fin" {
				// an ordinary server: when the proxy half-closes, it is done and closes, too
				go func() { io.Copy(io.Discard, ptc); ptc.Close() }()
			}
		}
		n, err := readUntil(t0.Add(c06T + 450*time.Millisecond))
		if n > 0 {
			return kit.Violation("probe:wrote-back", "server sent %d bytes on a stream that turned invalid (%s)", n, desc), false, class
		}
		if !kit.IsTimeout(err) {
			return kit.Violation("drain:closed-while-client-open", "stream that turned invalid after authentication (%s) was closed by the server (%v) %v after connect although the client kept it open", desc, err, time.Since(t0)), false, class
		}
		// the client gives up: the server must now close normally and promptly
		// (mid-relay the other direction stays up until the target is done, too)
		tc.CloseWrite()
		if ptc != nil {
			ptc.Close()
		}
		n, err = readUntil(time.Now().Add(3 * time.Second))
		if n > 0 {
			return kit.Violation("probe:wrote-back", "server sent %d bytes after the client's FIN (%s)", n, desc), false, class
		}
		if kit.IsTimeout(err) {
			return kit.Violation("drain:not-closed-after-fin", "%s: not closed within 3 s of the client's FIN", desc), true, class
		}
		if isReset(err) {
			return kit.Violation("probe:reset", "%s: connection reset instead of closed normally", desc), false, class
		}
		return nil, false, class
	}

	// class "probe": does not authenticate
	if p.Client == "fin" {
		time.Sleep(time.Duration(p.FinAfterMs) * time.Millisecond)
		tc.CloseWrite()
		n, err := readUntil(time.Now().Add(3 * time.Second))
		if n > 0 {
			return kit.Violation("probe:wrote-back", "server sent %d bytes to an unauthenticated client (%s)", n, desc), false, class
		}
		if kit.IsTimeout(err) {
			return kit.Violation("probe:not-closed-after-fin", "%s: not closed within 3 s of the client's FIN", desc), true, class
		}
		if isReset(err) {
			return kit.Violation("probe:reset", "%s: connection reset instead of closed normally", desc), false, class
		}
		return nil, false, class
	}
	n, err := readUntil(t0.Add(c06T + 3*time.Second))
	tEnd := time.Now()
	if n > 0 {
		return kit.Violation("probe:wrote-back", "server sent %d bytes to an unauthenticated client (%s)", n, desc), false, class
	}
	if kit.IsTimeout(err) {
		return kit.Violation("probe:never-closed", "%s: still open %v after connect (timeout %v)", desc, time.Since(t0), c06T), true, class
	}
	if tEnd.Sub(t0) < c06T {
		return kit.Violation("probe:closed-early", "%s: closed %v after the client started connecting, before the %v timeout (err=%v)", desc, tEnd.Sub(t0), c06T, err), false, class
	}
	if isReset(err) && tW.Sub(t0) < c06T*6/10 {
		return kit.Violation("probe:reset", "%s: connection reset instead of closed normally (all probe bytes were written %v after connect)", desc, tW.Sub(t0)), false, class
	}
	return nil, false, class
}

// c06Burst presents 2..8 copies of one valid, never-seen handshake at the same moment (replay history on): at most
// one of them is a client; all the others are replays, which get nothing and stay open - none of them may reach a
// target, whichever copy the server happens to look at first.
func c06Burst(w *c06World, p C06Probe, cacheOn bool) (*kit.Finding, string) {
	if !cacheOn {
		return nil, "relay"
	}
	q := p
	q.Kind = "replay"
	_, _, preface := c06Wire(w, q, 0)
	if preface == nil {
		return nil, "relay"
	}
	k := 2 + p.Arg%7
	conns := make([]*net.TCPConn, k)
	defer func() {
		for _, cn := range conns {
			if cn != nil {
				cn.Close()
			}
		}
	}()
	for i := range conns {
		cn, err := kit.DialTCP(w.front.Addr, 5*time.Second)
		if err != nil {
			return nil, "relay" // environment
		}
		conns[i] = cn
	}
	var wg sync.WaitGroup
	start := make(chan struct{})
	for _, cn := range conns {
		wg.Add(1)
		go func(cn *net.TCPConn) {
			defer wg.Done()
			<-start
			cn.Write(preface)
		}(cn)
	}
	t0 := time.Now()
	close(start)
	wg.Wait()
	served := 0
	var tcs []*net.TCPConn
	for {
		tc := w.tgt.Accept(150 * time.Millisecond)
		if tc == nil {
			break
		}
		tcs = append(tcs, tc)
		served++
	}
	defer func() {
		for _, tc := range tcs {
			tc.Close()
		}
	}()
	if served > 1 {
		return kit.Violation("probe:replay-served", "%d identical copies of one valid handshake were presented at the same moment with the replay history on: %d of them reached the target (at most one is a client, the others are replays and must be absorbed)", k, served), "probe"
	}
	// nobody gets an answer or a close while the clients keep their connections open (the target stays silent)
	if d := c06T*6/10 - time.Since(t0); d > 0 {
		time.Sleep(d)
	}
	for i, cn := range conns {
		cn.SetReadDeadline(time.Now().Add(2 * time.Millisecond))
		n, err := cn.Read(make([]byte, 16))
		// judged by the clock *after* the read: a close seen later than 0.9 T may be the regular one (the tester may
		// have been descheduled)
		if el := time.Since(t0); n > 0 || (err != nil && !kit.IsTimeout(err) && el < c06T*9/10) {
			return kit.Violation("probe:closed-early", "copy %d of %d identical handshakes: got %d bytes / %v only %v after connect (timeout %v)", i, k, n, err, el, c06T), "probe"
		}
	}
	return nil, "probe"
}

func runC06Batch(c C06Batch, info *kit.Info) *kit.Finding {
	defer kit.NoGC()() // leaked sockets must not be rescued by finalizers
	w, err := newC06World(c.Keys, c.CacheN)
	if err != nil {
		info.Skipped = err.Error()
		return nil
	}
	defer w.close()
	// Distinct handshakes per probe of the batch: two probes that drew the same (key, seed) would otherwise be a
	// genuine replay of each other when the cache is on.
	c.Probes = append([]C06Probe(nil), c.Probes...)
	for i := range c.Probes {
		c.Probes[i].Seed = c.Probes[i].Seed*64 + int64(i)
	}
	res := make([]*kit.Finding, len(c.Probes))
	hit := make([]bool, len(c.Probes))
	classes := make([]string, len(c.Probes))
	var wg, dialPhase sync.WaitGroup
	var noted sync.Map
	for i := range c.Probes {
		if c.Probes[i].Kind == "replay" || c.Probes[i].Kind == "replay_burst" || c.Probes[i].Kind == "postdial" || c.Probes[i].Kind == "postdial_fin" {
			continue // these use the shared target's accept queue: run sequentially below
		}
		wg.Add(1)
		dialPhase.Add(1)
		go func(i int) {
			defer wg.Done()
			note := func() {
				if _, dup := noted.LoadOrStore(i, true); !dup {
					dialPhase.Done()
				}
			}
			defer note() // probes that are not presented at all
			res[i], hit[i], classes[i] = c06One(w, c.Probes[i], c.CacheN > 0, 0, note)
		}(i)
	}
	if c.CloseListenerMs > 0 {
		dialPhase.Wait()
		kit.WaitFor(3*time.Second, func() bool { return len(w.met.TCPConns()) >= int(w.dialed.Load()) })
		time.Sleep(time.Duration(c.CloseListenerMs) * time.Millisecond)
		w.listenerClosed.Store(true)
		w.front.L.Close()
		info.Class("listener-closed-under-probes")
	}
	wg.Wait()
	for i := range c.Probes {
		if c.CloseListenerMs > 0 {
			for j := range classes { // nothing accepts any more
				if classes[j] == "" {
					classes[j] = "skipped"
				}
			}
			break
		}
		if c.Probes[i].Kind == "replay_burst" {
			res[i], classes[i] = c06Burst(w, c.Probes[i], c.CacheN > 0)
		}
		if c.Probes[i].Kind == "replay" || c.Probes[i].Kind == "postdial" || c.Probes[i].Kind == "postdial_fin" {
			res[i], hit[i], classes[i] = c06One(w, c.Probes[i], c.CacheN > 0, 0)
		}
	}
	for i, f := range res {
		info.Class("kind:"+c.Probes[i].Kind, "class:"+classes[i])
		if classes[i] != "relay" && classes[i] != "skipped" && (c.Probes[i].Kind != "random" || c.Probes[i].Arg >= 48 && c.Probes[i].Arg <= 52 || c.Probes[i].Arg > 66) {
			info.NonTrivial = true
		}
		if f == nil {
			continue
		}
		if !hit[i] {
			return f
		}
		// A bound was exceeded: a violation only if it reproduces in isolation (rule 2).
		w2, err := newC06World(c.Keys, c.CacheN)
		if err != nil {
			info.Inconclusive = f.Error()
			return nil
		}
		repro := 0
		for a := int64(1); a <= 3; a++ {
			if f2, _, _ := c06One(w2, c.Probes[i], c.CacheN > 0, a); f2 != nil {
				repro++
			}
		}
		w2.close()
		if repro == 3 {
			return f
		}
		info.Inconclusive = "bound hit did not reproduce: " + f.Error()
	}
	return nil
}

func TestC06_Real(t *testing.T) {
	p := kit.Prop[C06Batch]{ID: "C06", Name: "Real", Quick: 48, Thorough: 2400, Gen: genC06Batch(32), Run: runC06Batch}
	p.Execute(t)
}

// ---- a replay across a configuration reload -----------------------------------------------------------
// The real server (main package, replay history on): a valid handshake is accepted, the configuration is
// reloaded (unchanged, or with another key added), and the recorded handshake is presented again. It is a replay
// like any other: no authentication, nothing written back, not closed while the client keeps the connection open.

type C06Reload struct {
	Cipher  string `json:"cipher"`
	Reloads int    `json:"reloads"`
	AddKey  bool   `json:"add_key"`
	Seed    int64  `json:"seed"`
}

func genC06Reload(t *rapid.T) C06Reload {
	return C06Reload{Cipher: rapid.SampledFrom([]string{kit.Chacha, kit.AES256, kit.AES192}).Draw(t, "cipher"), Reloads: rapid.IntRange(0, 3).Draw(t, "reloads"), AddKey: rapid.Bool().Draw(t, "addKey"), Seed: rapid.Int64Range(1, 1<<40).Draw(t, "seed")}
}

func runC06Reload(c C06Reload, info *kit.Info) *kit.Finding {
	s, why := newMainSession(c.Seed)
	if s == nil {
		info.Skipped = why
		return nil
	}
	defer s.close()
	ks := kit.KeySpec{ID: "user", Cipher: c.Cipher, Secret: "across-reload"}
	cfg := func(extra bool) string {
		g := GConfig{Services: []GService{{Listeners: []GListener{{"tcp", "127.0.0.1", 2}}, Keys: []kit.KeySpec{ks}}}}
		if extra {
			g.Services[0].Keys = append(g.Services[0].Keys, kit.KeySpec{ID: "new", Cipher: kit.Chacha, Secret: "added-later"})
		}
		return s.writeConfig(g.renderYAML(s.pt))
	}
	if r, err := s.ex.Do(map[string]any{"cmd": "run", "config": cfg(false), "replay_history": 1000}, 20*time.Second); err != nil {
		return execFailure(s, err)
	} else if !r.OK {
		info.Skipped = "configuration did not load: " + r.Err
		return nil
	}
	addr := s.pt.addr("127.0.0.1", 2)
	key := ks.Key()
	wire := kit.EncodeStream(key, kit.DetBytes(c.Seed, key.SaltSize()), append(kit.SocksAddr("127.0.0.1", 9, false), "x"...), nil)
	present := func() (auth bool, closedAfter time.Duration, wrote int, err error) {
		cn, derr := kit.DialTCP(addr, 3*time.Second)
		if derr != nil {
			return false, 0, 0, derr
		}
		defer cn.Close()
		local := cn.LocalAddr().String()
		from := len(s.ex.Events)
		t0 := time.Now()
		cn.Write(wire)
		cn.SetReadDeadline(time.Now().Add(1500 * time.Millisecond))
		n, rerr := io.ReadFull(cn, make([]byte, 64))
		wrote = n
		if rerr != nil && !kit.IsTimeout(rerr) {
			closedAfter = time.Since(t0)
		}
		s.ex.Drain()
		for _, e := range s.ex.Events[from:] {
			if e.Kind == "tcp_auth" && e.Remote == local {
				auth = true
			}
		}
		return
	}
	auth, _, _, err := present()
	if err != nil {
		return execFailure(s, err)
	}
	if !auth {
		return kit.Violation("probe:original-not-served", "first presentation of a valid handshake was not authenticated")
	}
	for i := 0; i < c.Reloads; i++ {
		if r, err := s.ex.Do(map[string]any{"cmd": "reload", "config": cfg(c.AddKey && i%2 == 0)}, 20*time.Second); err != nil {
			return execFailure(s, err)
		} else if !r.OK {
			info.Skipped = "reload failed: " + r.Err
			return nil
		}
	}
	auth, closedAfter, wrote, err := present()
	if err != nil {
		return execFailure(s, err)
	}
	info.Class(fmt.Sprintf("reloads-between:%d", c.Reloads))
	info.NonTrivial, info.Steps = c.Reloads > 0, 2+c.Reloads
	if auth || wrote > 0 || closedAfter > 0 {
		return kit.Violation("probe:replay-served", "a handshake accepted before %d configuration reload(s) was presented again afterwards (replay history 1000): authenticated=%v, %d bytes written back, closed by the server after %v (a replay gets nothing and stays open while the client does)", c.Reloads, auth, wrote, closedAfter)
	}
	return nil
}

func TestC06_AcrossReload(t *testing.T) {
	p := kit.Prop[C06Reload]{ID: "C06", Name: "AcrossReload", Quick: 12, Thorough: 600, Gen: genC06Reload, Run: runC06Reload}
	p.Execute(t)
}
