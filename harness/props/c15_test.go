package props

// C15 — TCP connection metrics match what happened on the wire.
//
// 1..24 concurrent connections per case, each with a generated outcome scenario, through the real
// StreamServe + StreamHandler with a recording ServiceMetrics that also feeds the real Prometheus
// collector. Byte counts are measured independently at the client and target sockets.

import (
	"context"
	"fmt"
	"io"
	"net"
	"strings"
	"sync"
	"testing"
	"time"

	"github.com/Jigsaw-Code/outline-sdk/transport"
	outline_prometheus "github.com/Jigsaw-Code/outline-ss-server/prometheus"
	"github.com/Jigsaw-Code/outline-ss-server/service"
	"github.com/prometheus/client_golang/prometheus"
	"pgregory.net/rapid"
	"verif/harness/kit"
)

type C15Conn struct {
	Kind  string `json:"kind"` // ok | target_first_upload (the target half-closes after its answer, the client then uploads more) | cipher | replay_client | replay_server | bad_address | connect_fail | client_reset | target_reset | corrupt_chunk | client_first_close | target_first_close
	Key   int    `json:"key"`
	Up    int    `json:"up"`   // plaintext bytes client -> target
	Down  int    `json:"down"` // bytes target -> client
	Seed  int64  `json:"seed"`
	Chunk int    `json:"chunk"`
}

type C15Case struct {
	Keys  []kit.KeySpec `json:"keys"`
	Conns []C15Conn     `json:"conns"`
	// SearchSinkUs: the sink of the cipher-search metric takes this long per report (a slow metrics backend):
	// connections are then parked between their key search and the rest of the handshake while others come in
	SearchSinkUs int `json:"search_sink_us,omitempty"`
}

func genC15(maxConns int) func(t *rapid.T) C15Case {
	return func(t *rapid.T) C15Case {
		c := C15Case{Keys: kit.GenKeyUniverse(t, 1, 6)}
		c.SearchSinkUs = rapid.SampledFrom([]int{0, 0, 300, 3000}).Draw(t, "sink")
		n := rapid.IntRange(1, maxConns).Draw(t, "nconns")
		for i := 0; i < n; i++ {
			c.Conns = append(c.Conns, C15Conn{
				Kind: rapid.SampledFrom([]string{"ok", "ok", "ok", "client_first_close", "target_first_close", "target_first_upload", "cipher", "replay_client", "replay_server", "bad_address", "connect_fail", "client_reset", "target_reset", "corrupt_chunk"}).Draw(t, "kind"),
				Key:  rapid.IntRange(0, len(c.Keys)-1).Draw(t, "key"), Up: rapid.SampledFrom([]int{0, 1, 100, 5000, 16383, 16384, 70000}).Draw(t, "up"),
				Down: rapid.SampledFrom([]int{0, 1, 100, 5000, 16383, 16384, 70000}).Draw(t, "down"), Seed: rapid.Int64Range(1, 1<<40).Draw(t, "seed"), Chunk: rapid.SampledFrom([]int{1, 100, 16383}).Draw(t, "chunk")})
		}
		return c
	}
}

type c15Obs struct {
	local      string
	clientSent int64 // wire bytes written by the client
	clientRecv int64 // wire bytes read by the client
	tgtRecv    int64
	plainUp    int64 // plaintext bytes the client sent for the target
	tgtSent    int64
	complete   bool // ran to completion: counters must equal
	statuses   []string
	auth       bool // reference: authenticates
	probe      bool // reference: probe report expected
	err        string
}

type countingReader struct {
	r io.Reader
	n *int64
}

func c15Run(front string, keys []kit.KeySpec, cn C15Conn, cacheOn bool, idx int) (o c15Obs) {
	cn.Seed = cn.Seed*64 + int64(idx)   // distinct handshakes per connection of the case
	cn.Chunk = max(cn.Chunk, cn.Up/300) // bound the number of chunks
	ks := keys[cn.Key]
	key := ks.Key()
	tgt, err := kit.NewTCPTarget("127.0.0.1")
	if err != nil {
		o.err = "skip: " + err.Error()
		return
	}
	defer tgt.Close()
	addr := kit.SocksAddrFor(tgt.Addr, false)
	up := kit.DetBytes(cn.Seed+1, cn.Up)
	o.plainUp = int64(cn.Up)
	salt := kit.DetBytes(cn.Seed, key.SaltSize())
	if cn.Kind == "replay_server" {
		service.NewServerSaltGenerator(ks.Secret).GetSalt(salt)
	}
	enc := kit.NewStreamEncoder(key, salt)
	switch cn.Kind {
	case "bad_address":
		addr = append([]byte{9}, addr[1:]...)
	case "connect_fail":
		// a port nobody listens on (a just-released ephemeral port could be taken by a concurrent connection's target)
		addr = kit.SocksAddrFor("127.0.0.1:1", false)
		if cn.Seed%3 == 0 {
			// or a host name of 1..255 bytes that does not resolve (253 is the longest legal DNS name, 255 the
			// longest the address header can carry): the connection still ends exactly once, with a status
			l := []int{1, 63, 200, 251, 252, 253, 254, 255}[int(cn.Seed/3)%8]
			name := strings.Repeat("a", 50)
			for len(name) < l {
				name += "." + strings.Repeat("b", 50)
			}
			name = name[:l-min(l-1, len(".verif.test"))] + ".verif.test"[:min(l-1, len(".verif.test"))]
			if l == 1 {
				name = "x"
			}
			addr = kit.SocksAddr(name, 1, true)
		}
	}
	var wire []byte
	if cn.Kind == "cipher" {
		wire = kit.DetBytes(cn.Seed, 50+cn.Up%500)
	} else {
		wire = enc.Chunk(addr)
		for off := 0; off < len(up); off += cn.Chunk {
			ch := enc.Chunk(up[off:min(len(up), off+cn.Chunk)])
			if cn.Kind == "corrupt_chunk" && off == 0 {
				ch[len(ch)-1] ^= 1
			}
			wire = append(wire, ch...)
		}
		if cn.Kind == "corrupt_chunk" && len(up) == 0 {
			ch := enc.Chunk([]byte("x"))
			ch[len(ch)-1] ^= 1
			wire = append(wire, ch...)
		}
	}
	dial := func() (*net.TCPConn, error) {
		c, err := kit.DialTCP(front, 3*time.Second)
		if err != nil {
			return nil, err
		}
		return c, nil
	}
	if cn.Kind == "replay_server" && cacheOn && key.SaltSize() >= 20 && cn.Seed%2 == 0 {
		// the same reflected handshake was already presented once: the second presentation is still a *server* replay
		c0, err := dial()
		if err != nil {
			o.err = err.Error()
			return
		}
		c0.Write(wire)
		c0.CloseWrite()
		io.Copy(io.Discard, c0)
		c0.Close()
	}
	if cn.Kind == "replay_client" {
		// original presentation: a complete small relay
		c0, err := dial()
		if err != nil {
			o.err = err.Error()
			return
		}
		c0.Write(wire)
		c0.CloseWrite()
		if tc := tgt.Accept(5 * time.Second); tc != nil {
			io.Copy(io.Discard, tc)
			tc.Close()
		}
		io.Copy(io.Discard, c0)
		c0.Close()
	}
	cl, err := dial()
	if err != nil {
		o.err = err.Error()
		return
	}
	defer cl.Close()
	o.local = cl.LocalAddr().String()
	var recvMu sync.Mutex
	recvDone := make(chan struct{})
	go func() {
		defer close(recvDone)
		buf := make([]byte, 32<<10)
		for {
			n, err := cl.Read(buf)
			recvMu.Lock()
			o.clientRecv += int64(n)
			recvMu.Unlock()
			if err != nil {
				return
			}
		}
	}()
	n, _ := cl.Write(wire)
	o.clientSent = int64(n)
	finish := func() { // wait for the server to close its side
		select {
		case <-recvDone:
		case <-time.After(8 * time.Second):
			o.err = "server did not close the client connection within 8 s"
		}
	}
	down := kit.DetBytes(cn.Seed+2, cn.Down)

	switch cn.Kind {
	case "cipher", "replay_client", "replay_server":
		o.probe = true
		o.statuses = []string{map[string]string{"cipher": "ERR_CIPHER", "replay_client": "ERR_REPLAY_CLIENT", "replay_server": "ERR_REPLAY_SERVER"}[cn.Kind]}
		if cn.Kind == "replay_client" && !cacheOn {
			o.probe, o.auth, o.statuses = false, true, nil // without a cache this is simply a second valid connection
			if tc := tgt.Accept(5 * time.Second); tc != nil {
				cl.CloseWrite()
				io.Copy(io.Discard, tc)
				tc.Close()
			}
			finish()
			o.statuses = []string{"OK"}
			return
		}
		if cn.Kind == "replay_server" && key.SaltSize() < 20 {
			// 16-byte salts are not marked: a complete valid connection
			o.probe, o.auth = false, true
			if tc := tgt.Accept(5 * time.Second); tc != nil {
				cl.CloseWrite()
				io.Copy(io.Discard, tc)
				tc.Close()
			}
			finish()
			o.statuses = []string{"OK"}
			return
		}
		cl.CloseWrite()
		finish()
		o.complete = true
	case "bad_address":
		o.auth, o.statuses = true, []string{"ERR_READ_ADDRESS"}
		cl.CloseWrite()
		finish()
	case "connect_fail":
		o.auth, o.statuses = true, []string{"ERR_CONNECT"}
		finish()
	default:
		o.auth = true
		tc := tgt.Accept(5 * time.Second)
		if tc == nil {
			o.err = "valid request did not reach the target"
			return
		}
		defer tc.Close()
		var tRecv int64
		tDone := make(chan struct{})
		go func() {
			defer close(tDone)
			n, _ := io.Copy(io.Discard, tc)
			tRecv = n
		}()
		switch cn.Kind {
		case "ok", "client_first_close", "target_first_close", "target_first_upload":
			if cn.Kind == "client_first_close" {
				cl.CloseWrite()
				<-tDone
			}
			m, _ := tc.Write(down)
			o.tgtSent = int64(m)
			if cn.Kind == "target_first_close" || cn.Kind == "target_first_upload" {
				tc.CloseWrite()
				select {
				case <-recvDone:
				case <-time.After(8 * time.Second):
					o.err = "client did not see the target's end of stream"
					return
				}
				if cn.Kind == "target_first_upload" {
					// the target has finished talking but still listens: the client goes on uploading
					more := kit.DetBytes(cn.Seed+3, cn.Up+1)
					o.plainUp += int64(len(more))
					for off := 0; off < len(more); off += cn.Chunk {
						n, _ := cl.Write(enc.Chunk(more[off:min(len(more), off+cn.Chunk)]))
						o.clientSent += int64(n)
					}
				}
				cl.CloseWrite()
				<-tDone
			} else {
				if cn.Kind == "ok" {
					cl.CloseWrite()
					<-tDone
				}
				tc.CloseWrite()
				finish()
			}
			o.tgtRecv = tRecv
			o.complete, o.statuses = true, []string{"OK"}
		case "client_reset":
			m, _ := tc.Write(down)
			o.tgtSent = int64(m)
			time.Sleep(time.Millisecond)
			cl.SetLinger(0)
			cl.Close()
			<-recvDone
			select {
			case <-tDone:
			case <-time.After(8 * time.Second):
				o.err = "target did not see the end of a connection whose client reset"
			}
			o.tgtRecv = tRecv
			o.statuses = []string{"ERR_RELAY_CLIENT", "ERR_RELAY_TARGET"}
		case "target_reset":
			time.Sleep(time.Millisecond)
			tc.SetLinger(0)
			tc.Close()
			finish()
			cl.CloseWrite()
			<-tDone
			o.tgtRecv = tRecv
			o.statuses = []string{"ERR_RELAY_TARGET", "ERR_RELAY_CLIENT", "ERR_CONNECT"} // a reset right after accept can still fail the proxy's connect()
		case "corrupt_chunk":
			m, _ := tc.Write(down)
			o.tgtSent = int64(m)
			cl.CloseWrite()
			<-tDone
			tc.CloseWrite()
			finish()
			o.tgtRecv = tRecv
			o.statuses = []string{"ERR_RELAY_CLIENT"}
		}
	}
	return
}

func runC15(c C15Case, info *kit.Info) *kit.Finding {
	kit.InstallFakeDNS() // before any connection of the case exists: host names of connect_fail scenarios resolve (to nothing) in-process
	real, err := outline_prometheus.NewServiceMetrics(nil)
	if err != nil {
		return kit.Violation("tcpmetrics:setup", "%v", err)
	}
	reg := prometheus.NewPedanticRegistry()
	reg.MustRegister(real)
	met := &kit.RecService{Inner: real}
	cacheOn := len(c.Conns)%2 == 0
	var cache *service.ReplayCache
	if cacheOn {
		rc := service.NewReplayCache(1000)
		cache = &rc
	}
	sink := &kit.RecSSMetrics{Delay: time.Duration(c.SearchSinkUs) * time.Microsecond}
	h := service.NewStreamHandler(service.NewShadowsocksStreamAuthenticator(kit.NewCipherList(c.Keys), cache, sink, nil), 5*time.Second)
	h.SetTargetDialer(kit.PermissiveDialer)
	front, err := kit.ServeTCP("127.0.0.1", func(ctx context.Context, conn transport.StreamConn) {
		h.Handle(ctx, conn, met.AddOpenTCPConnection(conn))
	})
	if err != nil {
		info.Skipped = err.Error()
		return nil
	}
	obs := make([]c15Obs, len(c.Conns))
	var wg sync.WaitGroup
	for i := range c.Conns {
		wg.Add(1)
		go func(i int) { defer wg.Done(); obs[i] = c15Run(front.Addr, c.Keys, c.Conns[i], cacheOn, i) }(i)
	}
	wg.Wait()
	if !front.Close(8 * time.Second) {
		return kit.Violation("tcpmetrics:serve-did-not-return", "StreamServe did not return within 8 s of closing the listener although every client and target closed")
	}
	sum := map[string]float64{}
	closedBy := map[string]float64{}
	for i, o := range obs {
		cn := c.Conns[i]
		info.Class("kind:" + cn.Kind)
		if strings.HasPrefix(o.err, "skip:") {
			continue
		}
		if o.err != "" {
			return kit.Violation("tcpmetrics:scenario", "connection %d (%s): %s", i, cn.Kind, o.err)
		}
		rec := met.TCPByRemote(o.local)
		if rec == nil {
			return kit.Violation("tcpmetrics:no-open-report", "connection %d (%s) from %s was never reported opened", i, cn.Kind, o.local)
		}
		evs := rec.Events()
		nClosed, nAuth, nProbe := 0, 0, 0
		var closed, probe kit.TCPEvent
		authKey := ""
		for j, e := range evs {
			switch e.Kind {
			case "closed":
				nClosed++
				closed = e
				if j != len(evs)-1 {
					return kit.Violation("tcpmetrics:report-after-close", "connection %d (%s): %s reported after the close", i, cn.Kind, evs[j+1].Kind)
				}
			case "authenticated":
				nAuth++
				authKey = e.Key
			case "probe":
				nProbe++
				probe = e
			}
		}
		if nClosed != 1 {
			return kit.Violation("tcpmetrics:close-count", "connection %d (%s): reported closed %d times, want exactly once", i, cn.Kind, nClosed)
		}
		if nAuth > 1 || (nAuth == 1) != o.auth {
			return kit.Violation("tcpmetrics:auth-report", "connection %d (%s): %d authentication reports, the stream %s", i, cn.Kind, nAuth, map[bool]string{true: "authenticates", false: "does not authenticate"}[o.auth])
		}
		if o.auth && !kit.IDsWithMaterial(c.Keys, c.Keys[cn.Key].Material())[authKey] {
			return kit.Violation("tcpmetrics:auth-key", "connection %d (%s): authenticated as %q, key used was %s", i, cn.Kind, authKey, c.Keys[cn.Key].ID)
		}
		if (nProbe == 1) != o.probe || nProbe > 1 {
			return kit.Violation("tcpmetrics:probe-report", "connection %d (%s): %d probe reports, expected %v", i, cn.Kind, nProbe, o.probe)
		}
		if o.probe && (probe.Bytes != o.clientSent || probe.Status != closed.Status) {
			return kit.Violation("tcpmetrics:probe-bytes", "connection %d (%s): probe report says %d bytes status %s; the client sent %d bytes, close status %s", i, cn.Kind, probe.Bytes, probe.Status, o.clientSent, closed.Status)
		}
		okStatus := false
		for _, s := range o.statuses {
			okStatus = okStatus || s == closed.Status
		}
		if !okStatus {
			return kit.Violation("tcpmetrics:status", "connection %d (%s): closed with status %q, admissible: %v", i, cn.Kind, closed.Status, o.statuses)
		}
		d := closed.Data
		wire := [4]int64{o.clientSent, o.tgtRecv, o.tgtSent, o.clientRecv}
		got := [4]int64{d.ClientProxy, d.ProxyTarget, d.TargetProxy, d.ProxyClient}
		names := [4]string{"ClientProxy", "ProxyTarget", "TargetProxy", "ProxyClient"}
		for k := range wire {
			if o.complete && cn.Kind != "cipher" && !o.probe && got[k] != wire[k] {
				return kit.Violation("tcpmetrics:counter", "connection %d (%s) ran to completion: %s reported %d, measured on the wire %d (all: reported %v, wire %v)", i, cn.Kind, names[k], got[k], wire[k], got, wire)
			}
			if o.probe && k == 0 && got[0] != wire[0] {
				return kit.Violation("tcpmetrics:counter", "connection %d (%s): ClientProxy reported %d, the client sent %d", i, cn.Kind, got[0], wire[0])
			}
			// Upper bounds from the sender's side of each hop (a peer that reset may not have read what was sent to it):
			// client wrote clientSent; the client's plaintext is cn.Up bytes; the target wrote tgtSent; the client read clientRecv.
			bound := [4]int64{o.clientSent, o.plainUp, o.tgtSent, o.clientRecv}[k]
			if k == 3 && cn.Kind == "client_reset" {
				continue // the proxy may have sent bytes the resetting client never read
			}
			if got[k] > bound || got[k] < 0 {
				return kit.Violation("tcpmetrics:counter-exceeds-wire", "connection %d (%s): %s reported %d exceeds the %d bytes sent on that hop (all: reported %v)", i, cn.Kind, names[k], got[k], bound, got)
			}
		}
		if cn.Kind != "ok" && cn.Kind != "cipher" || cn.Up+cn.Down > 16384 {
			info.NonTrivial = true
		}
		dirs := [4]string{"c>p", "p>t", "p<t", "c<p"}
		for k, v := range got {
			if v > 0 {
				sum[dirs[k]+"|"+authKey] += float64(v)
			}
		}
		closedBy[closed.Status+"|"+authKey]++
	}
	// the real collector agrees with the call log
	mfs, err := reg.Gather()
	if err != nil {
		return kit.Violation("tcpmetrics:gather", "%v", err)
	}
	var opened float64
	gotSum, gotClosed := map[string]float64{}, map[string]float64{}
	perKeyDir, perLocDir := map[string]float64{}, map[string]float64{}
	for _, mf := range mfs {
		for _, m := range mf.GetMetric() {
			l := map[string]string{}
			for _, lp := range m.GetLabel() {
				l[lp.GetName()] = lp.GetValue()
			}
			switch mf.GetName() {
			case "tcp_connections_opened":
				opened += m.GetCounter().GetValue()
			case "tcp_connections_closed":
				gotClosed[l["status"]+"|"+l["access_key"]] += m.GetCounter().GetValue()
			case "data_bytes":
				if l["proto"] == "tcp" {
					gotSum[l["dir"]+"|"+l["access_key"]] += m.GetCounter().GetValue()
					perKeyDir[l["dir"]] += m.GetCounter().GetValue()
				}
			case "data_bytes_per_location":
				if l["proto"] == "tcp" {
					perLocDir[l["dir"]] += m.GetCounter().GetValue()
				}
			}
		}
	}
	for d, v := range perKeyDir {
		if perLocDir[d] != v {
			return kit.Violation("tcpmetrics:collector-location-bytes", "data_bytes_per_location{proto=tcp,dir=%s} adds up to %v, data_bytes for the same direction to %v", d, perLocDir[d], v)
		}
	}
	if int(opened) != len(met.TCPConns()) {
		return kit.Violation("tcpmetrics:collector-opened", "tcp_connections_opened = %v, %d connections were reported opened", opened, len(met.TCPConns()))
	}
	// replay_client originals are extra connections not in obs: compare only keys present in obs-derived maps as lower bounds
	for k, v := range sum {
		if gotSum[k] < v {
			return kit.Violation("tcpmetrics:collector-bytes", "data_bytes{%s} = %v, the per-connection reports add up to at least %v", k, gotSum[k], v)
		}
	}
	for k, v := range closedBy {
		if gotClosed[k] < v {
			return kit.Violation("tcpmetrics:collector-closed", "tcp_connections_closed{%s} = %v, call log has %v", k, gotClosed[k], v)
		}
	}
	var totalClosed float64
	for _, v := range gotClosed {
		totalClosed += v
	}
	if totalClosed != opened {
		return kit.Violation("tcpmetrics:collector-closed", "opened %v connections but closed %v", opened, totalClosed)
	}
	info.Steps = len(c.Conns)
	_ = fmt.Sprint
	return nil
}

func TestC15_Wire(t *testing.T) {
	p := kit.Prop[C15Case]{ID: "C15", Name: "Wire", Quick: 3000, Thorough: 300000, Gen: genC15(24), Run: runC15}
	p.Execute(t)
}
