package props

// C20 — metrics never expose client addresses and label locations by class.

import (
	"errors"
	"fmt"
	"github.com/Jigsaw-Code/outline-ss-server/service"
	"io"
	"net"
	"net/netip"
	"sort"
	"strconv"
	"strings"
	"sync"
	"sync/atomic"
	"testing"
	"time"

	"github.com/Jigsaw-Code/outline-ss-server/ipinfo"
	outline_prometheus "github.com/Jigsaw-Code/outline-ss-server/prometheus"
	"github.com/Jigsaw-Code/outline-ss-server/service/metrics"
	"github.com/prometheus/client_golang/prometheus"
	dto "github.com/prometheus/client_model/go"
	"pgregory.net/rapid"
	"verif/harness/kit"
)

// ---- classification ---------------------------------------------------------

type fakeDB struct {
	Mode  string // hit | empty | error
	CC    string
	ASN   int
	Org   string
	calls int
}

func (d *fakeDB) GetIPInfo(ip net.IP) (ipinfo.IPInfo, error) {
	d.calls++
	switch d.Mode {
	case "error":
		return ipinfo.IPInfo{}, errors.New("db failure")
	case "partial-error":
		// what the MMDB map does when the country lookup works and the ASN lookup fails: an answer AND an error
		return ipinfo.IPInfo{CountryCode: ipinfo.CountryCode(d.CC)}, errors.New("asn db failure")
	case "empty":
		return ipinfo.IPInfo{ASN: ipinfo.ASN{Number: d.ASN, Organization: d.Org}}, nil
	}
	return ipinfo.IPInfo{CountryCode: ipinfo.CountryCode(d.CC), ASN: ipinfo.ASN{Number: d.ASN, Organization: d.Org}}, nil
}

type C20Class struct {
	Via  string `json:"via"`  // addr | ip
	Form string `json:"form"` // tcp | udp | nil | noport | garbage | zoned | hostname | tcp-nilip | udp-nilip | tcp-emptyip | udp-badlen | tcp-badlen
	IP   string `json:"ip"`
	DB   string `json:"db"` // disabled | hit | empty | error
	CC   string `json:"cc"`
	ASN  int    `json:"asn"`
	Len4 bool   `json:"len4"`
}

var nonGlobal = func() []netip.Prefix {
	var out []netip.Prefix
	for _, s := range []string{"127.0.0.0/8", "::1/128", "0.0.0.0/32", "::/128", "224.0.0.0/4", "ff00::/8", "169.254.0.0/16", "fe80::/10", "255.255.255.255/32"} {
		out = append(out, netip.MustParsePrefix(s))
	}
	return out
}()

func isNonGlobal(a netip.Addr) bool {
	a = a.Unmap().WithZone("")
	for _, p := range nonGlobal {
		if p.Contains(a) {
			return true
		}
	}
	return false
}

type stringAddr struct{ s string }

func (a stringAddr) Network() string { return "tcp" }
func (a stringAddr) String() string  { return a.s }

func genC20Class(t *rapid.T) C20Class {
	c := C20Class{Via: rapid.SampledFrom([]string{"addr", "addr", "ip"}).Draw(t, "via")}
	c.DB = rapid.SampledFrom([]string{"disabled", "hit", "hit", "empty", "error", "partial-error"}).Draw(t, "db")
	c.CC = rapid.SampledFrom([]string{"US", "BR", "XL", "ZZ", "GB"}).Draw(t, "cc")
	c.ASN = rapid.SampledFrom([]int{0, 1, 64512}).Draw(t, "asn")
	c.Len4 = rapid.Bool().Draw(t, "len4")
	a := genC05Addr(t)
	c.IP = a.Addr
	// bias towards the class boundaries of this property
	if rapid.IntRange(0, 2).Draw(t, "special") == 0 {
		c.IP = rapid.SampledFrom([]string{"127.0.0.1", "127.255.255.255", "128.0.0.0", "126.255.255.255", "::1", "::2", "0.0.0.0", "0.0.0.1", "::", "224.0.0.0", "223.255.255.255", "239.255.255.255", "240.0.0.0",
			"ff00::", "feff::1", "169.254.0.0", "169.253.255.255", "169.254.255.255", "169.255.0.0", "fe80::", "fe7f:ffff::1", "febf::1", "fec0::1", "255.255.255.255", "255.255.255.254",
			"10.0.0.1", "192.168.1.1", "100.64.0.1", "fd00::1", "8.8.8.8", "2001:4860:4860::8888", "::ffff:127.0.0.1", "::ffff:8.8.8.8", "::ffff:224.0.0.1"}).Draw(t, "ip")
	}
	if c.Via == "addr" {
		c.Form = rapid.SampledFrom([]string{"tcp", "tcp", "udp", "nil", "noport", "garbage", "zoned", "hostname", "tcp-nilip", "udp-nilip", "tcp-emptyip", "udp-badlen", "tcp-badlen"}).Draw(t, "form")
	} else {
		c.Form = rapid.SampledFrom([]string{"ip", "ip", "ip", "nil"}).Draw(t, "form")
	}
	return c
}

func runC20Class(c C20Class, info *kit.Info) *kit.Finding {
	var db *fakeDB
	var m ipinfo.IPInfoMap
	if c.DB != "disabled" {
		db = &fakeDB{Mode: c.DB, CC: c.CC, ASN: c.ASN, Org: "org"}
		m = db
	}
	a := netip.MustParseAddr(c.IP)
	ipBytes := net.IP(a.AsSlice())
	if a.Is4() && !c.Len4 {
		ipBytes = ipBytes.To16()
	}
	var got ipinfo.IPInfo
	parsable := true
	zoned := false
	switch c.Via {
	case "ip":
		if c.Form == "nil" {
			if m == nil {
				info.Class("not-judged:nil-ip-with-lookup-disabled")
				return nil
			}
			parsable = false
			got, _ = ipinfo.GetIPInfoFromIP(m, nil)
		} else {
			got, _ = ipinfo.GetIPInfoFromIP(m, ipBytes)
		}
	case "addr":
		var addr net.Addr
		switch c.Form {
		case "tcp":
			addr = &net.TCPAddr{IP: ipBytes, Port: 51234}
		case "udp":
			addr = &net.UDPAddr{IP: ipBytes, Port: 51234}
		case "nil":
			parsable = false
		case "tcp-nilip": // typed addresses whose IP field is not an IP address: they print as ":51234" or "?0102..:51234"
			addr, parsable = &net.TCPAddr{Port: 51234}, false
		case "udp-nilip":
			addr, parsable = &net.UDPAddr{Port: 51234}, false
		case "tcp-emptyip":
			addr, parsable = &net.TCPAddr{IP: net.IP{}, Port: 51234}, false
		case "udp-badlen":
			addr, parsable = &net.UDPAddr{IP: net.IP(ipBytes[:3]), Port: 51234}, false
		case "tcp-badlen":
			addr, parsable = &net.TCPAddr{IP: append(net.IP(nil), append(ipBytes, 7)...), Port: 51234}, false
		case "noport":
			addr, parsable = stringAddr{a.String()}, false
		case "garbage":
			addr, parsable = stringAddr{"not an address at all:::"}, false
		case "hostname":
			addr, parsable = stringAddr{"client.example.com:443"}, false
		case "zoned":
			if !a.Is6() || a.Is4In6() {
				addr = &net.TCPAddr{IP: ipBytes, Port: 51234}
			} else {
				addr, zoned = &net.TCPAddr{IP: ipBytes, Port: 51234, Zone: "eth0"}, true
			}
		}
		got, _ = ipinfo.GetIPInfoFromAddr(m, addr)
	}
	calls := 0
	if db != nil {
		calls = db.calls
	}
	gotCC := got.CountryCode.String()
	info.Class("form:"+c.Form, "db:"+c.DB)
	info.NonTrivial = c.Form != "tcp" && c.Form != "ip" || isNonGlobal(a) || a.Is4In6() || c.DB != "hit"
	fail := func(sig, want string) *kit.Finding {
		return kit.Violation(sig, "%+v: location %q (db calls %d), want %s", c, gotCC, calls, want)
	}
	switch {
	case zoned:
		// net.ParseIP rejects zones ("unparsable"), netip sees link-local: the statement does not say which wins.
		info.Class("zoned")
		if calls != 0 && isNonGlobal(a) {
			return fail("location:db-consulted-for-nonglobal", "no database call for a zoned link-local address")
		}
		if gotCC != "XA" && !(isNonGlobal(a) && (gotCC == "XL" || m == nil && gotCC == "")) && !(m == nil && gotCC == "") && !(!isNonGlobal(a)) {
			return fail("location:zoned", "XA or XL")
		}
		return nil
	case !parsable:
		if gotCC != "XA" {
			return fail("location:unparsable", "XA")
		}
		if calls != 0 {
			return fail("location:db-consulted-for-unparsable", "no database call")
		}
	case m == nil:
		if gotCC != "" || got.ASN.Number != 0 || got.ASN.Organization != "" {
			return fail("location:disabled", "empty info when lookup is disabled")
		}
	case isNonGlobal(a):
		if gotCC != "XL" {
			return fail("location:nonglobal", "XL")
		}
		if calls != 0 {
			return fail("location:db-consulted-for-nonglobal", "no database call")
		}
		info.Class("non-global")
	case c.DB == "error" || c.DB == "partial-error":
		if gotCC != "XD" {
			return fail("location:db-error", "XD")
		}
	case c.DB == "empty":
		if gotCC != "ZZ" {
			return fail("location:no-country", "ZZ")
		}
	default:
		if gotCC != c.CC || got.ASN.Number != c.ASN {
			return fail("location:answer", fmt.Sprintf("the database's answer %s/%d", c.CC, c.ASN))
		}
		if calls != 1 {
			return fail("location:answer", "exactly one database call")
		}
	}
	return nil
}

func TestC20_Class(t *testing.T) {
	p := kit.Prop[C20Class]{ID: "C20", Name: "Class", Quick: 400000, Thorough: 20000000, Gen: genC20Class, Run: runC20Class}
	p.Execute(t)
}

// ---- exposition -------------------------------------------------------------

type C20Op struct {
	Kind   string `json:"kind"` // tcp | udp
	Key    string `json:"key"`
	Auth   bool   `json:"auth"`
	Status string `json:"status"`
	Bytes  [4]int `json:"bytes"`
	Probe  bool   `json:"probe"`
	Pkts   int    `json:"pkts"`
}

type C20Expo struct {
	IPs   [2]string `json:"ips"` // two client addresses of the same class
	Ports [2]int    `json:"ports"`
	DB    string    `json:"db"`
	CC    string    `json:"cc"`
	ASN   int       `json:"asn"`
	Ops   []C20Op   `json:"ops"`
}

var c20Pairs = [][2]string{{"8.8.8.8", "93.184.216.34"}, {"2001:4860:4860::8888", "2606:2800:220:1:248:1893:25c8:1946"}, {"10.1.2.3", "172.20.30.40"},
	{"127.0.0.1", "127.7.7.7"}, {"::1", "::1"}, {"169.254.3.4", "169.254.77.88"}, {"fe80::1234", "fe80::abcd:ef"}, {"::ffff:8.8.4.4", "::ffff:151.101.1.69"}, {"100.64.3.3", "100.99.88.77"}, {"fd12:3456::1", "fdab:cdef::2"}}

func genC20Expo(t *rapid.T) C20Expo {
	c := C20Expo{IPs: rapid.SampledFrom(c20Pairs).Draw(t, "pair"), DB: rapid.SampledFrom([]string{"disabled", "hit", "hit", "empty", "error", "partial-error"}).Draw(t, "db"),
		CC: rapid.SampledFrom([]string{"US", "BR", "IR"}).Draw(t, "cc"), ASN: rapid.SampledFrom([]int{0, 15169}).Draw(t, "asn")}
	c.Ports = [2]int{rapid.SampledFrom([]int{40961, 43210, 54321, 61234}).Draw(t, "p0"), rapid.SampledFrom([]int{41017, 47777, 58989, 60001}).Draw(t, "p1")}
	n := rapid.IntRange(1, 12).Draw(t, "nops")
	for i := 0; i < n; i++ {
		op := C20Op{Kind: rapid.SampledFrom([]string{"tcp", "tcp", "udp"}).Draw(t, "kind"), Key: rapid.SampledFrom([]string{"key-1", "key-2", "user@example"}).Draw(t, "key")}
		op.Auth = rapid.Bool().Draw(t, "auth")
		op.Status = rapid.SampledFrom([]string{"OK", "ERR_CIPHER", "ERR_RELAY_CLIENT", "ERR_CONNECT"}).Draw(t, "status")
		for j := range op.Bytes {
			op.Bytes[j] = rapid.IntRange(0, 30000).Draw(t, "bytes")
		}
		op.Probe = rapid.Bool().Draw(t, "probe")
		op.Pkts = rapid.IntRange(0, 4).Draw(t, "pkts")
		c.Ops = append(c.Ops, op)
	}
	return c
}

type sample struct {
	key   string // name{labels}
	value string
	name  string
	loc   string // location/asn/asorg triple, "" when the metric has no location label
}

func c20Play(c C20Expo, which int) ([]*dto.MetricFamily, error) {
	var m ipinfo.IPInfoMap
	if c.DB != "disabled" {
		m = &fakeDB{Mode: c.DB, CC: c.CC, ASN: c.ASN, Org: "Example Org"}
	}
	sm, err := outline_prometheus.NewServiceMetrics(m)
	if err != nil {
		return nil, err
	}
	reg := prometheus.NewPedanticRegistry()
	if err := reg.Register(sm); err != nil {
		return nil, err
	}
	ip := net.ParseIP(c.IPs[which])
	port := c.Ports[which]
	for i, op := range c.Ops {
		switch op.Kind {
		case "tcp":
			conn := kit.NewMemConn(nil, &net.TCPAddr{IP: ip, Port: port + i%3})
			conn.Local = &net.TCPAddr{IP: net.IPv4(198, 18, 0, 1), Port: 443} // the listener's own address (not a client address)
			cm := sm.AddOpenTCPConnection(conn)
			status := op.Status
			if op.Auth {
				cm.AddAuthenticated(op.Key)
			} else {
				status = "ERR_CIPHER"
				if op.Probe {
					cm.AddProbe(status, "timeout", int64(op.Bytes[0]))
				}
			}
			sm.AddCipherSearch("tcp", op.Auth, time.Millisecond)
			cm.AddClosed(status, metrics.ProxyMetrics{ClientProxy: int64(op.Bytes[0]), ProxyTarget: int64(op.Bytes[1]), TargetProxy: int64(op.Bytes[2]), ProxyClient: int64(op.Bytes[3])}, 5*time.Millisecond)
		case "udp":
			um := sm.AddUDPNatEntry(&net.UDPAddr{IP: ip, Port: port + i%3}, op.Key)
			sm.AddCipherSearch("udp", true, time.Millisecond)
			for p := 0; p < op.Pkts; p++ {
				um.AddPacketFromClient(op.Status, int64(op.Bytes[0]), int64(op.Bytes[1]))
				um.AddPacketFromTarget("OK", int64(op.Bytes[2]), int64(op.Bytes[3]))
			}
			if op.Auth { // reuse the flag: remove or leave the association live at scrape time
				um.RemoveNatEntry()
			}
		}
	}
	return reg.Gather()
}

func isTimingMetric(name string) bool {
	return strings.Contains(name, "tunnel_time") || strings.Contains(name, "duration") || strings.Contains(name, "time_to_cipher")
}

func flatten(mfs []*dto.MetricFamily) (all []sample, labelNames map[string]bool) {
	labelNames = map[string]bool{}
	for _, mf := range mfs {
		for _, m := range mf.GetMetric() {
			var ls []string
			loc, hasLoc := map[string]string{}, false
			for _, lp := range m.GetLabel() {
				ls = append(ls, lp.GetName()+"="+strconv.Quote(lp.GetValue()))
				labelNames[lp.GetName()] = true
				switch lp.GetName() {
				case "location":
					hasLoc = true
					loc["location"] = lp.GetValue()
				case "asn", "asorg":
					loc[lp.GetName()] = lp.GetValue()
				}
			}
			locStr := ""
			if hasLoc {
				locStr = fmt.Sprintf("location=%q asn=%q asorg=%q", loc["location"], loc["asn"], loc["asorg"])
			}
			sort.Strings(ls)
			k := mf.GetName() + "{" + strings.Join(ls, ",") + "}"
			v := ""
			switch {
			case m.Counter != nil:
				v = strconv.FormatFloat(m.Counter.GetValue(), 'g', -1, 64)
			case m.Gauge != nil:
				v = strconv.FormatFloat(m.Gauge.GetValue(), 'g', -1, 64)
			case m.Histogram != nil:
				v = fmt.Sprintf("count=%d sum=%s", m.Histogram.GetSampleCount(), strconv.FormatFloat(m.Histogram.GetSampleSum(), 'g', -1, 64))
				if isTimingMetric(mf.GetName()) {
					v = fmt.Sprintf("count=%d", m.Histogram.GetSampleCount())
				}
			}
			if isTimingMetric(mf.GetName()) && m.Histogram == nil {
				v = "<timing>"
			}
			all = append(all, sample{k, v, mf.GetName(), locStr})
		}
	}
	sort.Slice(all, func(i, j int) bool { return all[i].key < all[j].key })
	return
}

func ipForms(s string) []string {
	a := netip.MustParseAddr(s)
	forms := map[string]bool{a.String(): true, a.StringExpanded(): true, a.Unmap().String(): true, net.IP(a.AsSlice()).String(): true}
	if a.Is6() {
		forms["["+a.String()+"]"] = true
	}
	var out []string
	for f := range forms {
		if len(f) >= 3 {
			out = append(out, strings.ToLower(f))
		}
	}
	return out
}

func runC20Expo(c C20Expo, info *kit.Info) *kit.Finding {
	var flat [2][]sample
	for which := 0; which < 2; which++ {
		mfs, err := c20Play(c, which)
		if err != nil {
			return kit.Violation("expo:gather-error", "gathering from a pedantic registry failed: %v", err)
		}
		var names map[string]bool
		flat[which], names = flatten(mfs)
		// (i) nothing exported contains the client's address or port
		needles := ipForms(c.IPs[which])
		for d := 0; d < 3; d++ {
			needles = append(needles, strconv.Itoa(c.Ports[which]+d))
		}
		for _, s := range flat[which] {
			hay := strings.ToLower(s.key)
			for _, n := range needles {
				if strings.Contains(hay, n) {
					return kit.Violation("expo:client-address-exported", "metric %s contains %q, which is (part of) the client address %s:%d", s.key, n, c.IPs[which], c.Ports[which])
				}
				// (values: a value that exported the port would differ between the two runs below,
				// which use different ports — checked by the metamorphic comparison, without
				// mistaking a byte count that happens to equal a port number)
			}
		}
		for n := range names {
			if n == "client" || n == "client_ip" || n == "ip" || n == "addr" || n == "remote" {
				// a label *name* like this is only suspicious; the value check above decides
				info.Class("suspicious-label-name:" + n)
			}
		}
		// "exactly one location label": connection metrics and tunnel-time metrics of this client agree
		loc := map[string]map[string]bool{}
		for _, s := range flat[which] {
			if s.loc != "" {
				if loc[s.name] == nil {
					loc[s.name] = map[string]bool{}
				}
				loc[s.name][s.loc] = true
			}
		}
		// ... and it is the label the client's class prescribes
		wantLoc := ""
		a := netip.MustParseAddr(c.IPs[which])
		switch {
		case c.DB == "disabled":
		case isNonGlobal(a):
			wantLoc = "XL"
		case c.DB == "error" || c.DB == "partial-error":
			wantLoc = "XD"
		case c.DB == "empty":
			wantLoc = "ZZ"
		default:
			wantLoc = c.CC
		}
		for name, ls := range loc {
			for l := range ls {
				if !strings.HasPrefix(l, fmt.Sprintf("location=%q ", wantLoc)) {
					return kit.Violation("expo:wrong-location-label", "client %s (database %s): metric %s is labelled %s, the class prescribes location=%q", c.IPs[which], c.DB, name, l, wantLoc)
				}
			}
		}
		var first map[string]bool
		for name, ls := range loc {
			if len(ls) != 1 {
				return kit.Violation("expo:several-locations", "one client address, but metric %s carries %d different location labels: %v", name, len(ls), ls)
			}
			if first == nil {
				first = ls
			} else {
				for l := range ls {
					if !first[l] {
						return kit.Violation("expo:location-disagrees", "metrics of one client disagree on its location: %v vs %v (%s)", first, ls, name)
					}
				}
			}
		}
	}
	// (ii) metamorphic: the same history from another address of the same class gives the same series and values
	if len(flat[0]) != len(flat[1]) {
		return kit.Violation("expo:depends-on-client-address", "the same history from %s and from %s (same class) yields %d vs %d series", c.IPs[0], c.IPs[1], len(flat[0]), len(flat[1]))
	}
	for i := range flat[0] {
		if flat[0][i].key != flat[1][i].key || flat[0][i].value != flat[1][i].value {
			return kit.Violation("expo:depends-on-client-address", "the same history from %s and %s differs: %v vs %v", c.IPs[0], c.IPs[1], flat[0][i], flat[1][i])
		}
	}
	info.NonTrivial = len(c.Ops) >= 2
	info.Class("db:"+c.DB, "class-pair:"+c.IPs[0])
	return nil
}

func TestC20_Expo(t *testing.T) {
	p := kit.Prop[C20Expo]{ID: "C20", Name: "Expo", Quick: 12000, Thorough: 600000, Gen: genC20Expo, Run: runC20Expo}
	p.Execute(t)
}

// ---- several clients in one history: the label depends on the address alone, not on traffic history ----

type byIPDB struct{}

func byIPAnswer(ip net.IP) (string, int) {
	sum := 0
	for _, b := range ip.To16() {
		sum += int(b)
	}
	return []string{"US", "BR", "IE", "IR", ""}[sum%5], sum % 3
}

func (byIPDB) GetIPInfo(ip net.IP) (ipinfo.IPInfo, error) {
	cc, asn := byIPAnswer(ip)
	return ipinfo.IPInfo{CountryCode: ipinfo.CountryCode(cc), ASN: ipinfo.ASN{Number: asn}}, nil
}

type C20MOp struct {
	Client int    `json:"client"`
	Kind   string `json:"kind"` // tcp | udp
	Auth   bool   `json:"auth"`
	Key    string `json:"key,omitempty"`  // access key id ("" = "key"); ids are often small decimal numbers
	Hold   bool   `json:"hold,omitempty"` // the tunnel stays open until the end of the history (lifetimes overlap)
}

type C20Multi struct {
	Clients []string `json:"clients"`
	Ops     []C20MOp `json:"ops"`
}

var c20MultiPool = []string{"8.8.8.8", "93.184.216.34", "1.1.1.1", "2001:4860:4860::8888", "2606:2800:220:1:248:1893:25c8:1946", "2a00:1450:4001:81b::200e", "2620:fe::fe",
	"::ffff:151.101.1.69", "10.1.2.3", "127.0.0.1", "::1", "fe80::1234", "169.254.3.4", "fd12:3456::1"}

func genC20Multi(t *rapid.T) C20Multi {
	c := C20Multi{Clients: rapid.SliceOfNDistinct(rapid.SampledFrom(c20MultiPool), 2, 5, rapid.ID[string]).Draw(t, "clients")}
	n := rapid.IntRange(2, 16).Draw(t, "nops")
	for i := 0; i < n; i++ {
		c.Ops = append(c.Ops, C20MOp{Client: rapid.IntRange(0, len(c.Clients)-1).Draw(t, "client"), Kind: rapid.SampledFrom([]string{"tcp", "tcp", "udp"}).Draw(t, "kind"), Auth: rapid.Bool().Draw(t, "auth"),
			Key: rapid.SampledFrom([]string{"", "", "1", "2", "3", "12", "23"}).Draw(t, "key"), Hold: rapid.Bool().Draw(t, "hold")})
	}
	if rapid.IntRange(0, 2).Draw(t, "ambiguous") == 0 {
		// two clients whose (address, key id) pairs read the same when written one after the other:
		// 20.0.0.<d> with key <e><r> and 20.0.0.<d><e> with key <r>; both hold their tunnels
		d, e := rapid.IntRange(1, 24).Draw(t, "d"), rapid.IntRange(0, 9).Draw(t, "e")
		r := rapid.SampledFrom([]string{"3", "7", "42", "0"}).Draw(t, "r")
		base := rapid.SampledFrom([]string{"20.0.0.", "93.184.216.", "2001:4860::"}).Draw(t, "base")
		c.Clients = append(c.Clients, fmt.Sprintf("%s%d", base, d), fmt.Sprintf("%s%d%d", base, d, e))
		kind := rapid.SampledFrom([]string{"tcp", "udp"}).Draw(t, "ambKind")
		a := C20MOp{Client: len(c.Clients) - 2, Kind: kind, Auth: true, Key: fmt.Sprintf("%d%s", e, r), Hold: true}
		b := C20MOp{Client: len(c.Clients) - 1, Kind: kind, Auth: true, Key: r, Hold: true}
		at := rapid.IntRange(0, len(c.Ops)).Draw(t, "at")
		c.Ops = append(c.Ops[:at:at], append([]C20MOp{a, b}, c.Ops[at:]...)...)
	}
	return c
}

func runC20Multi(c C20Multi, info *kit.Info) *kit.Finding {
	sm, err := outline_prometheus.NewServiceMetrics(byIPDB{})
	if err != nil {
		return kit.Violation("expo:setup", "%v", err)
	}
	reg := prometheus.NewPedanticRegistry()
	if err := reg.Register(sm); err != nil {
		return kit.Violation("expo:setup", "%v", err)
	}
	label := func(ipStr string) string {
		a := netip.MustParseAddr(ipStr)
		if isNonGlobal(a) {
			return `location="XL" asn=""`
		}
		cc, asn := byIPAnswer(net.ParseIP(ipStr))
		if cc == "" {
			cc = "ZZ"
		}
		as := ""
		if asn != 0 {
			as = strconv.Itoa(asn)
		}
		return fmt.Sprintf("location=%q asn=%q", cc, as)
	}
	wantOpened, wantPkts, wantTunnel := map[string]float64{}, map[string]float64{}, map[string]bool{}
	v6global := map[string]bool{}
	var atEnd []func()
	for i, op := range c.Ops {
		keyID := op.Key
		if keyID == "" {
			keyID = "key"
		}
		ipStr := c.Clients[op.Client]
		ip := net.ParseIP(ipStr)
		l := label(ipStr)
		if a := netip.MustParseAddr(ipStr); a.Is6() && !a.Is4In6() && !isNonGlobal(a) {
			v6global[ipStr] = true
		}
		switch op.Kind {
		case "tcp":
			conn := kit.NewMemConn(nil, &net.TCPAddr{IP: ip, Port: 50000 + i})
			conn.Local = &net.TCPAddr{IP: net.IPv4(198, 18, 0, 1), Port: 443}
			cm := sm.AddOpenTCPConnection(conn)
			wantOpened[l]++
			if op.Auth {
				cm.AddAuthenticated(keyID)
				wantTunnel[l] = true
			}
			if op.Hold {
				atEnd = append(atEnd, func() { cm.AddClosed("OK", metrics.ProxyMetrics{ClientProxy: 10, ProxyClient: 10}, time.Millisecond) })
			} else {
				cm.AddClosed("OK", metrics.ProxyMetrics{ClientProxy: 10, ProxyClient: 10}, time.Millisecond)
			}
		case "udp":
			um := sm.AddUDPNatEntry(&net.UDPAddr{IP: ip, Port: 50000 + i}, keyID)
			um.AddPacketFromClient("OK", 20, 10)
			wantPkts[l]++
			wantTunnel[l] = true
			if op.Hold {
				atEnd = append(atEnd, um.RemoveNatEntry)
			} else {
				um.RemoveNatEntry()
			}
		}
	}
	for _, f := range atEnd {
		f()
	}
	mfs, err := reg.Gather()
	if err != nil {
		return kit.Violation("expo:gather-error", "%v", err)
	}
	gotOpened, gotPkts, gotTunnel := map[string]float64{}, map[string]float64{}, map[string]bool{}
	for _, mf := range mfs {
		for _, m := range mf.GetMetric() {
			l := map[string]string{}
			for _, lp := range m.GetLabel() {
				l[lp.GetName()] = lp.GetValue()
			}
			key := fmt.Sprintf("location=%q asn=%q", l["location"], l["asn"])
			switch mf.GetName() {
			case "tcp_connections_opened":
				gotOpened[key] += m.GetCounter().GetValue()
			case "udp_packets_from_client_per_location":
				gotPkts[key] += m.GetCounter().GetValue()
			case "tunnel_time_seconds_per_location":
				gotTunnel[key] = true
			}
		}
	}
	cmp := func(name string, want, got map[string]float64) *kit.Finding {
		for k, v := range want {
			if got[k] != v {
				return kit.Violation("expo:label-depends-on-history", "%s: %v connections/packets came from clients whose class and database answer prescribe {%s}, the exposition counts %v there (all: want %v, got %v) — clients %v", name, v, k, got[k], want, got, c.Clients)
			}
		}
		for k, v := range got {
			if _, ok := want[k]; !ok && v != 0 {
				return kit.Violation("expo:label-depends-on-history", "%s: %v counted under {%s}, which no client of this history maps to (want %v)", name, v, k, want)
			}
		}
		return nil
	}
	if f := cmp("tcp_connections_opened", wantOpened, gotOpened); f != nil {
		return f
	}
	if f := cmp("udp_packets_from_client_per_location", wantPkts, gotPkts); f != nil {
		return f
	}
	for k := range wantTunnel {
		if !gotTunnel[k] {
			return kit.Violation("expo:label-depends-on-history", "tunnel_time_seconds_per_location has no series {%s} although a client of that location had a tunnel (has %v)", k, gotTunnel)
		}
	}
	for k := range gotTunnel {
		if !wantTunnel[k] {
			return kit.Violation("expo:label-depends-on-history", "tunnel_time_seconds_per_location has a series {%s} that no client with a tunnel maps to (want %v)", k, wantTunnel)
		}
	}
	info.NonTrivial = len(v6global) >= 2 || len(wantOpened)+len(wantPkts) >= 3
	if len(v6global) >= 2 {
		info.Class("two-global-ipv6-clients")
	}
	return nil
}

func TestC20_Multi(t *testing.T) {
	p := kit.Prop[C20Multi]{ID: "C20", Name: "Multi", Quick: 8000, Thorough: 400000, Gen: genC20Multi, Run: runC20Multi}
	p.Execute(t)
}

// ---- labels under concurrent scrapes -------------------------------------------------------------
// With location lookup enabled no series ever carries the empty location (that label means "lookup disabled"):
// a client's label is decided by its address class alone, also for a scrape that lands while the client is
// being registered.

type C20Conc struct {
	Workers   int   `json:"workers"`
	Scrapers  int   `json:"scrapers"`
	Ops       int   `json:"ops"`
	LatencyUs int   `json:"db_latency_us"`
	Seed      int64 `json:"seed"`
}

func genC20Conc(t *rapid.T) C20Conc {
	return C20Conc{Workers: rapid.IntRange(2, 12).Draw(t, "workers"), Scrapers: rapid.IntRange(1, 4).Draw(t, "scrapers"), Ops: rapid.IntRange(20, 200).Draw(t, "ops"),
		LatencyUs: rapid.SampledFrom([]int{0, 50, 500}).Draw(t, "latency"), Seed: rapid.Int64Range(1, 1<<40).Draw(t, "seed")}
}

type c20SlowDB struct {
	fakeDB
	latency time.Duration
}

func (d *c20SlowDB) GetIPInfo(ip net.IP) (ipinfo.IPInfo, error) {
	if d.latency > 0 {
		time.Sleep(d.latency)
	}
	return ipinfo.IPInfo{CountryCode: "BR", ASN: ipinfo.ASN{Number: 64512, Organization: "org"}}, nil
}

func runC20Conc(c C20Conc, info *kit.Info) *kit.Finding {
	sm, err := outline_prometheus.NewServiceMetrics(&c20SlowDB{latency: time.Duration(c.LatencyUs) * time.Microsecond})
	if err != nil {
		return kit.Violation("expo:setup", "%v", err)
	}
	reg := prometheus.NewRegistry()
	reg.MustRegister(sm)
	var stop atomic.Bool
	var bad atomic.Pointer[kit.Finding]
	var swg, wg sync.WaitGroup
	scrapes := atomic.Int64{}
	for s := 0; s < c.Scrapers; s++ {
		swg.Add(1)
		go func() {
			defer swg.Done()
			for !stop.Load() {
				mfs, err := reg.Gather()
				if err != nil {
					bad.CompareAndSwap(nil, kit.Violation("expo:gather", "%v", err))
					return
				}
				scrapes.Add(1)
				for _, mf := range mfs {
					for _, m := range mf.GetMetric() {
						for _, l := range m.GetLabel() {
							if l.GetName() == "location" && l.GetValue() == "" {
								bad.CompareAndSwap(nil, kit.Violation("location:empty-with-lookup-enabled", "a scrape concurrent with client traffic shows %s with location=\"\" although location lookup is enabled (every client of this history is in the database's country BR)", mf.GetName()))
							}
						}
					}
				}
			}
		}()
	}
	for w := 0; w < c.Workers; w++ {
		wg.Add(1)
		go func(w int) {
			defer wg.Done()
			for i := 0; i < c.Ops && bad.Load() == nil; i++ {
				n := c.Seed + int64(w)*1_000_003 + int64(i)
				ip := net.IPv4(8, byte(n>>16), byte(n>>8), byte(n)) // a new public client each time
				if i%2 == 0 {
					m := sm.AddOpenTCPConnection(kit.NewMemConn(nil, &net.TCPAddr{IP: ip, Port: 4000 + w}))
					m.AddAuthenticated("key-1")
					m.AddClosed("OK", metrics.ProxyMetrics{ClientProxy: 1, ProxyTarget: 1, TargetProxy: 1, ProxyClient: 1}, time.Millisecond)
				} else {
					u := sm.AddUDPNatEntry(&net.UDPAddr{IP: ip, Port: 4000 + w}, "key-1")
					u.AddPacketFromClient("OK", 10, 5)
					u.RemoveNatEntry()
				}
			}
		}(w)
	}
	wg.Wait()
	stop.Store(true)
	swg.Wait()
	if f := bad.Load(); f != nil {
		return f
	}
	info.NonTrivial, info.Steps = scrapes.Load() >= 2, c.Workers*c.Ops
	return nil
}

func TestC20_Concurrent(t *testing.T) {
	p := kit.Prop[C20Conc]{ID: "C20", Name: "Concurrent", Quick: 60, Thorough: 4000, Gen: genC20Conc, Run: runC20Conc}
	p.Execute(t)
}

// ---- end to end: the real TCP service in front of the real collector ------------------------------------
// Clients on distinctive loopback addresses go through the real stream handler with the real Prometheus
// collector as its metrics sink: valid relays, probes that end with FIN, with a reset in the middle of the drain,
// or by timeout. Nothing the registry exports afterwards may contain a client's IP or ":port".

type C20E2E struct {
	Conns []string `json:"conns"` // relay | probe_fin | probe_rst | probe_hold
	Seed  int64    `json:"seed"`
}

func genC20E2E(t *rapid.T) C20E2E {
	return C20E2E{Conns: rapid.SliceOfN(rapid.SampledFrom([]string{"relay", "probe_fin", "probe_rst", "probe_rst", "probe_hold"}), 1, 8).Draw(t, "conns"), Seed: rapid.Int64Range(1, 1<<40).Draw(t, "seed")}
}

func runC20E2E(c C20E2E, info *kit.Info) *kit.Finding {
	sm, err := outline_prometheus.NewServiceMetrics(&fakeDB{Mode: "hit", CC: "BR", ASN: 64512, Org: "org"})
	if err != nil {
		return kit.Violation("expo:setup", "%v", err)
	}
	reg := prometheus.NewRegistry()
	reg.MustRegister(sm)
	ks := kit.KeySpec{ID: "user-1", Cipher: kit.Chacha, Secret: "e2e-secret"}
	key := ks.Key()
	svc, err := service.NewShadowsocksService(service.WithCiphers(kit.NewCipherList([]kit.KeySpec{ks})), service.WithMetrics(sm))
	if err != nil {
		return kit.Violation("expo:setup", "%v", err)
	}
	l, err := kit.ListenTCPLow(&net.TCPAddr{IP: net.IPv4(127, 0, 0, 1)})
	if err != nil {
		info.Skipped = err.Error()
		return nil
	}
	served := make(chan struct{})
	go func() {
		service.StreamServe(service.WrapStreamAcceptFunc(l.AcceptTCP), svc.HandleStream)
		close(served)
	}()
	var clients []string
	for i, kind := range c.Conns {
		// a client address that occurs nowhere else: 127.77.x.y, port chosen by the kernel
		ip := net.IPv4(127, 77, byte(1+i), byte(2+c.Seed%200))
		d := net.Dialer{Timeout: 3 * time.Second, LocalAddr: &net.TCPAddr{IP: ip}}
		cn, err := d.Dial("tcp", l.Addr().String())
		if err != nil {
			continue
		}
		tc := cn.(*net.TCPConn)
		clients = append(clients, ip.String(), fmt.Sprintf(":%d", tc.LocalAddr().(*net.TCPAddr).Port))
		switch kind {
		case "relay":
			// a destination the default policy refuses: authenticated, then closed with ERR_ADDRESS_*
			tc.Write(kit.EncodeStream(key, kit.DetBytes(c.Seed+int64(i), key.SaltSize()), append(kit.SocksAddr("127.0.0.1", 9, false), "x"...), nil))
			tc.CloseWrite()
			io.Copy(io.Discard, tc)
		case "probe_fin":
			tc.Write(kit.DetBytes(c.Seed+int64(i), 64))
			tc.CloseWrite()
			io.Copy(io.Discard, tc)
		case "probe_rst":
			tc.Write(kit.DetBytes(c.Seed+int64(i), 64))
			time.Sleep(30 * time.Millisecond) // the server is draining by now
			tc.Write([]byte("more"))
			tc.SetLinger(0)
		case "probe_hold":
			tc.Write(kit.DetBytes(c.Seed+int64(i), 10))
			time.Sleep(20 * time.Millisecond)
		}
		tc.Close()
		info.Class("e2e:" + kind)
	}
	l.Close()
	select {
	case <-served:
	case <-time.After(5 * time.Second): // a held probe lasts until the (59 s) timeout only if the client stays: all clients are gone
		return kit.Violation("expo:serve-did-not-stop", "StreamServe did not return within 5 s although every client had closed")
	}
	mfs, err := reg.Gather()
	if err != nil {
		return kit.Violation("expo:gather", "%v", err)
	}
	for _, mf := range mfs {
		for _, m := range mf.GetMetric() {
			for _, lp := range m.GetLabel() {
				for _, needle := range clients {
					if strings.Contains(lp.GetValue(), needle) || strings.Contains(mf.GetName(), needle) {
						return kit.Violation("expo:client-address-exposed", "%s{%s=%q} contains %q, which identifies a client (connection kinds of this case: %v)", mf.GetName(), lp.GetName(), lp.GetValue(), needle, c.Conns)
					}
				}
			}
		}
	}
	info.NonTrivial, info.Steps = true, len(c.Conns)
	return nil
}

func TestC20_E2E(t *testing.T) {
	p := kit.Prop[C20E2E]{ID: "C20", Name: "E2E", Quick: 60, Thorough: 4000, Gen: genC20E2E, Run: runC20E2E}
	p.Execute(t)
}
