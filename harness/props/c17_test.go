package props

// C17 (concurrent, real clock) — the quantifier includes schedules, and under a
// fake clock time cannot move between two statements, so ordering bugs between
// "read the clock" and "take the lock" are invisible there. Worker goroutines
// open/authenticate/close tunnels for generated client pools while scraper
// goroutines Gather continuously. The case is journalled before it runs: a
// panic inside a goroutine spawned by Registry.Gather kills the process.

import (
	"fmt"
	"math"
	"net"
	"runtime"
	"sort"
	"sync"
	"sync/atomic"
	"testing"
	"time"

	"github.com/Jigsaw-Code/outline-ss-server/ipinfo"
	outline_prometheus "github.com/Jigsaw-Code/outline-ss-server/prometheus"
	"github.com/Jigsaw-Code/outline-ss-server/service/metrics"
	"github.com/prometheus/client_golang/prometheus"
	"pgregory.net/rapid"
	"verif/harness/kit"
)

type C17Conc struct {
	Workers   int   `json:"workers"`
	Scrapers  int   `json:"scrapers"`
	Pool      int   `json:"pool"` // client IP pool size; 0 = every tunnel comes from a new IP
	Keys      int   `json:"keys"`
	LatencyUs int   `json:"db_latency_us"`
	HoldUs    int   `json:"hold_us"`
	Ops       int   `json:"ops_per_worker"`
	UDP       bool  `json:"udp"`
	Burst     bool  `json:"burst"` // all workers open their tunnel for one (IP, key) at the same instant, round by round
	Seed      int64 `json:"seed"`
}

func genC17Conc(t *rapid.T) C17Conc {
	return C17Conc{
		Workers: rapid.IntRange(2, 12).Draw(t, "workers"), Scrapers: rapid.IntRange(1, 4).Draw(t, "scrapers"),
		Pool: rapid.SampledFrom([]int{0, 0, 1, 2, 8}).Draw(t, "pool"), Keys: rapid.IntRange(1, 3).Draw(t, "keys"),
		LatencyUs: rapid.SampledFrom([]int{0, 1, 10, 50}).Draw(t, "latency"), HoldUs: rapid.SampledFrom([]int{0, 0, 5, 100}).Draw(t, "hold"),
		Ops: rapid.IntRange(50, 400).Draw(t, "ops"), UDP: rapid.Bool().Draw(t, "udp"), Burst: rapid.IntRange(0, 2).Draw(t, "burst") == 0, Seed: rapid.Int64Range(1, 1<<30).Draw(t, "seed"),
	}
}

type slowDB struct{ d time.Duration }

func (s slowDB) GetIPInfo(ip net.IP) (ipinfo.IPInfo, error) {
	if s.d > 0 {
		t := time.Now()
		for time.Since(t) < s.d {
		}
	}
	// every client network has its own AS number (a process keeps meeting new ones)
	n := len(ip)
	return ipinfo.IPInfo{CountryCode: "US", ASN: ipinfo.ASN{Number: 64512 + int(ip[n-1]) + int(ip[n-2])<<8 + int(ip[n-3])<<16, Organization: "org"}}, nil
}

type ivl struct{ lo, hi time.Time }

func unionLen(iv []ivl) time.Duration {
	sort.Slice(iv, func(i, j int) bool { return iv[i].lo.Before(iv[j].lo) })
	var total time.Duration
	var cur ivl
	for i, x := range iv {
		if !x.hi.After(x.lo) {
			continue
		}
		if i == 0 || cur.hi.IsZero() {
			cur = x
			continue
		}
		if x.lo.After(cur.hi) {
			total += cur.hi.Sub(cur.lo)
			cur = x
		} else if x.hi.After(cur.hi) {
			cur.hi = x.hi
		}
	}
	if !cur.hi.IsZero() {
		total += cur.hi.Sub(cur.lo)
	}
	return total
}

func runC17Conc(c C17Conc, info *kit.Info) *kit.Finding {
	sm, err := outline_prometheus.NewServiceMetrics(slowDB{time.Duration(c.LatencyUs) * time.Microsecond})
	if err != nil {
		return kit.Violation("tunneltime:setup", "%v", err)
	}
	reg := prometheus.NewRegistry()
	reg.MustRegister(sm)
	type ck struct {
		ip  string
		key int
	}
	var mu sync.Mutex
	inner, outer := map[ck][]ivl{}, map[ck][]ivl{}
	var stop atomic.Bool
	var fnd atomic.Pointer[kit.Finding]
	var wg, swg sync.WaitGroup
	var ipCounter atomic.Int64

	for s := 0; s < c.Scrapers; s++ {
		swg.Add(1)
		go func() {
			defer swg.Done()
			prev := map[string]float64{}
			for !stop.Load() {
				mfs, err := reg.Gather()
				if err != nil {
					fnd.CompareAndSwap(nil, kit.Violation("tunneltime:gather-error", "Gather failed under concurrent traffic: %v", err))
					return
				}
				for _, mf := range mfs {
					if mf.GetName() != "tunnel_time_seconds" && mf.GetName() != "tunnel_time_seconds_per_location" {
						continue
					}
					for _, m := range mf.GetMetric() {
						id := mf.GetName()
						for _, l := range m.GetLabel() {
							id += "|" + l.GetValue()
						}
						if v := m.GetCounter().GetValue(); v < prev[id] {
							fnd.CompareAndSwap(nil, kit.Violation("tunneltime:counter-decreased", "%s went from %v to %v between two scrapes", id, prev[id], v))
						} else {
							prev[id] = v
						}
					}
				}
			}
		}()
	}
	var progress atomic.Int64
	barrier := newSpinBarrier(c.Workers)
	if c.Burst {
		c.Ops = min(c.Ops, 150)
	}
	for w := 0; w < c.Workers; w++ {
		wg.Add(1)
		go func(w int) {
			defer wg.Done()
			defer barrier.leave()
			for i := 0; i < c.Ops && fnd.Load() == nil && !stop.Load(); i++ {
				var n int64
				if c.Burst {
					// everybody is the same client in this round, and starts together
					n = int64(i)
					barrier.wait()
				} else if c.Pool == 0 {
					n = ipCounter.Add(1)
				} else {
					n = (int64(w)*31 + int64(i)*17 + c.Seed) % int64(c.Pool)
				}
				ip := net.IPv4(198, byte(18+n>>16&1), byte(n>>8), byte(n))
				key := int((int64(i) + c.Seed) % int64(c.Keys))
				if c.Burst {
					key = i % c.Keys
				}
				k := ck{ip.String(), key}
				var t0, t1, t2, t3 time.Time
				if c.UDP && i%2 == 0 {
					t0 = time.Now()
					u := sm.AddUDPNatEntry(&net.UDPAddr{IP: ip, Port: 4000 + w}, fmt.Sprintf("key-%d", key))
					t1 = time.Now()
					spin(c.HoldUs)
					t2 = time.Now()
					u.RemoveNatEntry()
					t3 = time.Now()
				} else {
					conn := kit.NewMemConn(nil, &net.TCPAddr{IP: ip, Port: 4000 + w})
					m := sm.AddOpenTCPConnection(conn)
					t0 = time.Now()
					m.AddAuthenticated(fmt.Sprintf("key-%d", key))
					t1 = time.Now()
					spin(c.HoldUs)
					t2 = time.Now()
					m.AddClosed("OK", metrics.ProxyMetrics{}, time.Millisecond)
					t3 = time.Now()
				}
				mu.Lock()
				inner[k] = append(inner[k], ivl{t1, t2})
				outer[k] = append(outer[k], ivl{t0, t3})
				mu.Unlock()
				progress.Add(1)
			}
		}(w)
	}
	done := make(chan struct{})
	go func() { wg.Wait(); close(done) }()
	// A wedge is the absence of progress, not slowness: a busy host may need long for a burst history.
	lastProgress, lastChange, began := int64(-1), time.Now(), time.Now()
wait:
	for {
		select {
		case <-done:
			break wait
		case <-time.After(500 * time.Millisecond):
		}
		if p := progress.Load(); p != lastProgress {
			lastProgress, lastChange = p, time.Now()
		}
		if time.Since(lastChange) > 15*time.Second {
			stop.Store(true)
			return kit.Violation("tunneltime:wedged", "no worker completed an operation for 15 s (%d of %d done; a metrics call never returned; mutex left locked?)", lastProgress, c.Workers*c.Ops)
		}
		if time.Since(began) > 3*time.Minute {
			stop.Store(true)
			info.Inconclusive = "time budget: the workload did not finish within 3 minutes on this host (still making progress)"
			<-done
			return nil
		}
	}
	stop.Store(true)
	sdone := make(chan struct{})
	go func() { swg.Wait(); close(sdone) }()
	select {
	case <-sdone:
	case <-time.After(10 * time.Second):
		return kit.Violation("tunneltime:wedged", "a scrape did not return within 10 s")
	}
	if f := fnd.Load(); f != nil {
		return f
	}
	mfs, err := reg.Gather()
	if err != nil {
		return kit.Violation("tunneltime:gather-error", "final Gather failed: %v", err)
	}
	got := map[string]float64{}
	var sumLoc, sumKey float64
	for _, mf := range mfs {
		for _, m := range mf.GetMetric() {
			switch mf.GetName() {
			case "tunnel_time_seconds":
				got[m.GetLabel()[0].GetValue()] = m.GetCounter().GetValue()
				sumKey += m.GetCounter().GetValue()
			case "tunnel_time_seconds_per_location":
				sumLoc += m.GetCounter().GetValue()
			}
		}
	}
	segs := 0
	for key := 0; key < c.Keys; key++ {
		var lo, hi time.Duration
		for k, iv := range inner {
			if k.key == key {
				lo += unionLen(iv)
				hi += unionLen(outer[k])
				segs += len(iv)
			}
		}
		g := got[fmt.Sprintf("key-%d", key)]
		tol := 1e-7 * float64(segs+1)
		if g < lo.Seconds()-tol || g > hi.Seconds()+tol {
			return kit.Violation("tunneltime:wrong-total", "after the workload tunnel_time_seconds{key-%d} = %.6f s, outside the interval [%.6f, %.6f] computed from the workers' own timestamps", key, g, lo.Seconds(), hi.Seconds())
		}
	}
	if math.Abs(sumLoc-sumKey) > 1e-7*float64(segs+1) {
		return kit.Violation("tunneltime:location-mismatch", "per-key total %.7f s, per-location total %.7f s", sumKey, sumLoc)
	}
	info.NonTrivial = true
	info.Steps = c.Workers * c.Ops
	info.Class(fmt.Sprintf("pool:%d", c.Pool), fmt.Sprintf("udp:%v", c.UDP), fmt.Sprintf("burst:%v", c.Burst))
	return nil
}

func spin(us int) {
	if us <= 0 {
		return
	}
	t := time.Now()
	for time.Since(t) < time.Duration(us)*time.Microsecond {
	}
}

func TestC17_Concurrent(t *testing.T) {
	p := kit.Prop[C17Conc]{ID: "C17", Name: "Concurrent", Quick: 160, Thorough: 20000, Gen: genC17Conc, Run: runC17Conc, Journal: true}
	p.Execute(t)
}

// spinBarrier lets a set of goroutines start a round at (nearly) the same instant; a goroutine that
// stops early leaves, so the others are never stuck.
type spinBarrier struct {
	n       atomic.Int32
	arrived atomic.Int32
	gen     atomic.Int32
}

func newSpinBarrier(n int) *spinBarrier {
	b := &spinBarrier{}
	b.n.Store(int32(n))
	return b
}

func (b *spinBarrier) wait() {
	g := b.gen.Load()
	if b.arrived.Add(1) >= b.n.Load() {
		b.arrived.Store(0)
		b.gen.Add(1)
		return
	}
	for t := time.Now(); b.gen.Load() == g && time.Since(t) < 200*time.Millisecond; {
		runtime.Gosched() // the other workers may need this core to arrive
	}
}

func (b *spinBarrier) leave() {
	b.n.Add(-1)
	if b.arrived.Load() >= b.n.Load() && b.n.Load() > 0 {
		b.arrived.Store(0)
		b.gen.Add(1)
	}
}
