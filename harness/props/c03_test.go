package props

// C03 — every forwarded UDP datagram is authenticated, attributed and intact.
// C04 — UDP associations give each client one stable, private outbound socket.
// C16 — UDP metrics match the datagrams actually relayed.
// All three run generated histories through the shared udpworld executor.

import (
	"bytes"
	"fmt"
	"net"
	"sync"
	"testing"
	"time"

	outline_prometheus "github.com/Jigsaw-Code/outline-ss-server/prometheus"
	"github.com/Jigsaw-Code/outline-ss-server/service"
	"github.com/prometheus/client_golang/prometheus"
	"pgregory.net/rapid"
	"verif/harness/kit"
)

func runUDP(c UCase, info *kit.Info, nat, metrics bool) *kit.Finding {
	w, f := newUWorld(c, info, permitAllBut66)
	defer w.close()
	if f != nil {
		return f
	}
	if w.skipped != "" {
		info.Skipped = w.skipped
		return nil
	}
	w.checkNAT = nat
	var reg *prometheus.Registry
	if metrics {
		// the real Prometheus collector sits behind the recorder: what it exports must add up to the same calls
		real, err := outline_prometheus.NewServiceMetrics(nil)
		if err != nil {
			return kit.Violation("udpmetrics:setup", "%v", err)
		}
		reg = prometheus.NewPedanticRegistry()
		reg.MustRegister(real)
		w.met.Inner = real
	}
	if f := w.run(); f != nil {
		return f
	}
	if nat {
		live := 0
		shared := false
		seenIP, seenKey := map[string]int{}, map[string]int{}
		for ci := range w.assoc {
			if a := w.liveAssoc(ci); a != nil {
				live++
				seenIP[w.clients[ci].Addr.IP.String()]++
				seenKey[a.Key.Material()]++
			}
		}
		for _, n := range seenIP {
			shared = shared || n >= 2
		}
		for _, n := range seenKey {
			shared = shared || n >= 2
		}
		replies := 0
		for _, a := range w.all {
			for _, r := range a.Replies {
				if !r.Lost {
					replies++
				}
			}
		}
		info.NonTrivial = live >= 2 && shared && replies > 0
		if info.NonTrivial {
			info.Class("live-assocs-sharing-ip-or-key")
		}
	}
	if f := w.shutdown(); f != nil {
		return f
	}
	if metrics && !w.aborted {
		if f := checkUDPMetrics(w, info); f != nil || info.Inconclusive != "" {
			return f
		}
	}
	if metrics {
		return checkUDPCollector(w, reg)
	}
	return nil
}

// checkUDPCollector compares what the real collector exports with the recorded calls (which checkUDPMetrics has
// compared with the datagrams observed on the sockets): association counters, bytes per key and direction,
// client datagrams per status.
func checkUDPCollector(w *uWorld, reg *prometheus.Registry) *kit.Finding {
	wantBytes := map[string]float64{}
	wantStatus := map[string]float64{}
	var added, removed float64
	for _, r := range w.met.UDPAssocs() {
		added++
		removed += float64(r.Removed())
		for _, e := range r.Events() {
			switch e.Kind {
			case "fromClient":
				wantBytes["c>p|"+r.Key] += float64(e.A)
				wantBytes["p>t|"+r.Key] += float64(e.B)
				wantStatus[e.Status]++
			case "fromTarget":
				wantBytes["p<t|"+r.Key] += float64(e.A)
				wantBytes["c<p|"+r.Key] += float64(e.B)
			}
		}
	}
	mfs, err := reg.Gather()
	if err != nil {
		return kit.Violation("udpmetrics:gather", "%v", err)
	}
	gotBytes := map[string]float64{}
	gotStatus := map[string]float64{}
	perKeyDir, perLocDir := map[string]float64{}, map[string]float64{}
	var gotAdded, gotRemoved float64
	for _, mf := range mfs {
		for _, m := range mf.GetMetric() {
			l := map[string]string{}
			for _, lp := range m.GetLabel() {
				l[lp.GetName()] = lp.GetValue()
			}
			v := m.GetCounter().GetValue()
			switch mf.GetName() {
			case "udp_nat_entries_added":
				gotAdded += v
			case "udp_nat_entries_removed":
				gotRemoved += v
			case "data_bytes":
				if l["proto"] == "udp" {
					gotBytes[l["dir"]+"|"+l["access_key"]] += v
					perKeyDir[l["dir"]] += v
				}
			case "data_bytes_per_location":
				if l["proto"] == "udp" {
					perLocDir[l["dir"]] += v
				}
			case "udp_packets_from_client_per_location":
				gotStatus[l["status"]] += v
			}
		}
	}
	if gotAdded != added || gotRemoved != removed {
		return kit.Violation("udpmetrics:collector-assocs", "udp_nat_entries_added/removed = %v/%v, the call log has %v additions and %v removals", gotAdded, gotRemoved, added, removed)
	}
	for k, v := range wantBytes {
		if gotBytes[k] != v {
			return kit.Violation("udpmetrics:collector-bytes", "data_bytes{proto=udp,%s} = %v, the reported datagrams add up to %v", k, gotBytes[k], v)
		}
	}
	for k, v := range gotBytes {
		if wantBytes[k] != v {
			return kit.Violation("udpmetrics:collector-bytes", "data_bytes{proto=udp,%s} = %v, the reported datagrams add up to %v", k, v, wantBytes[k])
		}
	}
	for d, v := range perKeyDir {
		if perLocDir[d] != v {
			return kit.Violation("udpmetrics:collector-location-bytes", "data_bytes_per_location{proto=udp,dir=%s} adds up to %v, data_bytes for the same direction to %v", d, perLocDir[d], v)
		}
	}
	for k, v := range wantStatus {
		if gotStatus[k] != v {
			return kit.Violation("udpmetrics:collector-status", "udp_packets_from_client_per_location{status=%s} = %v, %v client datagrams were reported with that status", k, gotStatus[k], v)
		}
	}
	return nil
}

// checkUDPMetrics is C16's oracle: per association one add and one remove; every datagram that
// created or arrived on the association reported once with its sizes and status; every reply once.
func checkUDPMetrics(w *uWorld, info *kit.Info) *kit.Finding {
	fenceAddr := w.fence.Addr.String()
	recs := w.met.UDPAssocs()
	byRec := map[*kit.RecUDPAssoc]*uAssoc{}
	for _, a := range w.all {
		byRec[a.Rec] = a
	}
	for _, r := range recs {
		if r.Client == fenceAddr {
			if n := r.Removed(); n != 1 {
				return kit.Violation("udpmetrics:remove-count", "fence association removed %d times", n)
			}
			continue
		}
		a := byRec[r]
		if a == nil {
			return kit.Violation("udpmetrics:unexpected-assoc", "an association for client %s (key %s) was reported that the model does not know", r.Client, r.Key)
		}
		evs := r.Events()
		if n := r.Removed(); n != 1 {
			return kit.Violation("udpmetrics:remove-count", "association of client %s reported removed %d times, want exactly once", r.Client, n)
		}
		if evs[len(evs)-1].Kind != "removed" {
			if w.c.TimeoutMs < 60_000 {
				// with expiries a datagram can meet an association in the window between its removal report and its
				// removal from the table: the properties do not forbid that, the accounting below cannot judge it
				info.Inconclusive = "a datagram was reported on an association after its removal report (expiry window)"
				return nil
			}
			return kit.Violation("udpmetrics:event-after-remove", "association of client %s has events after its removal although nothing expired in this history: %+v", r.Client, evs[len(evs)-1])
		}
		var fc, ft []kit.UDPEvent
		for _, e := range evs {
			switch e.Kind {
			case "fromClient":
				fc = append(fc, e)
			case "fromTarget":
				ft = append(ft, e)
			}
		}
		if len(fc) != len(a.Sends) {
			return kit.Violation("udpmetrics:client-packet-count", "association gen %d of client %d: %d client datagrams reported, %d arrived on it (%+v vs %+v)", a.Gen, a.Client, len(fc), len(a.Sends), fc, a.Sends)
		}
		for i, s := range a.Sends {
			e := fc[i]
			wantPT := int64(0)
			if s.Forwarded {
				wantPT = int64(s.PayloadLen)
			}
			if e.Status != s.Status || e.A != int64(s.WireLen) || e.B != wantPT {
				return kit.Violation("udpmetrics:client-packet", "op %d: reported (status=%s clientProxy=%d proxyTarget=%d), observed (status=%s wire=%d payload=%d)", s.Op, e.Status, e.A, e.B, s.Status, s.WireLen, wantPT)
			}
		}
		if len(ft) != len(a.Replies) {
			return kit.Violation("udpmetrics:target-packet-count", "association gen %d of client %d: %d target datagrams reported, %d relayed", a.Gen, a.Client, len(ft), len(a.Replies))
		}
		for i, s := range a.Replies {
			e := ft[i]
			if s.Lost {
				if e.Status == "OK" {
					return kit.Violation("udpmetrics:target-packet", "op %d: an oversize reply of %d bytes that was not relayed is reported with status OK (proxyClient=%d)", s.Op, s.PayloadLen, e.B)
				}
				if e.B != 0 {
					return kit.Violation("udpmetrics:target-packet", "op %d: an oversize reply of %d bytes was not relayed (status %s): nothing went to the client, and %d bytes are reported as sent to it", s.Op, s.PayloadLen, e.Status, e.B)
				}
				continue
			}
			if e.Status != "OK" || e.A != int64(s.PayloadLen) || e.B != int64(s.WireLen) {
				return kit.Violation("udpmetrics:target-packet", "op %d: reported (status=%s targetProxy=%d proxyClient=%d), observed payload=%d wire=%d", s.Op, e.Status, e.A, e.B, s.PayloadLen, s.WireLen)
			}
		}
		if len(a.Sends) > 1 || len(a.Replies) > 0 {
			info.NonTrivial = true
		}
	}
	for _, a := range w.all {
		found := false
		for _, r := range recs {
			found = found || r == a.Rec
		}
		if !found {
			return kit.Violation("udpmetrics:assoc-not-reported", "association gen %d not in the metrics log", a.Gen)
		}
	}
	info.Class(fmt.Sprintf("assocs:%d", min(len(w.all), 5)))
	return nil
}

func TestC03_UDP(t *testing.T) {
	o := uOpts{maxKeys: 10, maxOps: 16}
	if kit.Tier() == "thorough" {
		o = uOpts{maxKeys: 60, maxOps: 30}
	}
	p := kit.Prop[UCase]{ID: "C03", Name: "UDP", Quick: 3000, Thorough: 300000, Gen: genUCase(o),
		Run: func(c UCase, info *kit.Info) *kit.Finding { return runUDP(c, info, false, false) }}
	p.Execute(t)
}

// The same with short-lived associations and key-list updates: a former client coming back with a key that has
// left the list is a new client address and must authenticate against the list in force.
func TestC03_UDPExpiry(t *testing.T) {
	o := uOpts{maxKeys: 4, maxOps: 14, manyClients: true, expiry: true, sizes: []int{0, 1, 64, 1400}}
	p := kit.Prop[UCase]{ID: "C03", Name: "UDPExpiry", Quick: 160, Thorough: 30000, Gen: genUCase(o),
		Run: func(c UCase, info *kit.Info) *kit.Finding { return runUDP(c, info, false, false) }}
	p.Execute(t)
}

func TestC04_NAT(t *testing.T) {
	o := uOpts{maxKeys: 6, maxOps: 20, manyClients: true, sizes: []int{0, 1, 64, 1400}}
	if kit.Tier() == "thorough" {
		o.maxOps = 40
	}
	p := kit.Prop[UCase]{ID: "C04", Name: "NAT", Quick: 2400, Thorough: 300000, Gen: genUCase(o),
		Run: func(c UCase, info *kit.Info) *kit.Finding { return runUDP(c, info, true, false) }}
	p.Execute(t)
}

func TestC04_NATExpiry(t *testing.T) {
	o := uOpts{maxKeys: 4, maxOps: 14, manyClients: true, expiry: true, sizes: []int{0, 1, 64, 1400}}
	p := kit.Prop[UCase]{ID: "C04", Name: "NATExpiry", Quick: 200, Thorough: 40000, Gen: genUCase(o),
		Run: func(c UCase, info *kit.Info) *kit.Finding { return runUDP(c, info, true, false) }}
	p.Execute(t)
}

// C04's last clause under the default policy: an association is created only by an authenticated datagram with an
// *allowed* destination, however the destination is written (shares the end-to-end executor of C05).
func TestC04_Policy(t *testing.T) {
	p := kit.Prop[C05E2E]{ID: "C04", Name: "Policy", Quick: 2000, Thorough: 200000, Gen: genC05E2E, Run: runC05UDP}
	p.Execute(t)
}

func TestC16_Metrics(t *testing.T) {
	o := uOpts{maxKeys: 6, maxOps: 20, manyClients: true}
	p := kit.Prop[UCase]{ID: "C16", Name: "Metrics", Quick: 2400, Thorough: 300000, Gen: genUCase(o),
		Run: func(c UCase, info *kit.Info) *kit.Finding { return runUDP(c, info, false, true) }}
	p.Execute(t)
}

func TestC16_MetricsExpiry(t *testing.T) {
	o := uOpts{maxKeys: 4, maxOps: 14, manyClients: true, expiry: true, sizes: []int{0, 1, 64, 1400}}
	p := kit.Prop[UCase]{ID: "C16", Name: "MetricsExpiry", Quick: 200, Thorough: 30000, Gen: genUCase(o),
		Run: func(c UCase, info *kit.Info) *kit.Finding { return runUDP(c, info, false, true) }}
	p.Execute(t)
}

// ---- one handler, several sockets: first datagrams at the same moment ------------------------------------
// A service's packet handler serves all of its UDP listeners at once. Datagrams that open new associations on
// different listeners at the same moment must each reach their target with exactly their own payload.

type C03Shared struct {
	Ciphers   []string `json:"ciphers"` // one key per listener
	PerLane   int      `json:"per_lane"`
	PayloadSz int      `json:"payload_size"`
	Seed      int64    `json:"seed"`
}

func genC03Shared(t *rapid.T) C03Shared {
	return C03Shared{Ciphers: rapid.SliceOfN(rapid.SampledFrom(kit.AllCiphers), 2, 4).Draw(t, "ciphers"), PerLane: rapid.IntRange(100, 600).Draw(t, "perLane"),
		PayloadSz: rapid.SampledFrom([]int{16, 1000, 12000, 40000}).Draw(t, "size"), Seed: rapid.Int64Range(1, 1<<40).Draw(t, "seed")}
}

func runC03Shared(c C03Shared, info *kit.Info) *kit.Finding {
	var keys []kit.KeySpec
	for i, ci := range c.Ciphers {
		keys = append(keys, kit.KeySpec{ID: fmt.Sprintf("lane%d", i), Cipher: ci, Secret: fmt.Sprintf("lane-secret-%d", i)})
	}
	ph := service.NewPacketHandler(30*time.Second, kit.NewCipherList(keys), &kit.RecService{}, nil)
	ph.SetTargetIPValidator(kit.PermitAll)
	tgt, err := kit.NewUDPPeer("127.0.0.1", 0)
	if err != nil {
		info.Skipped = err.Error()
		return nil
	}
	defer tgt.Close()
	var fronts []*kit.UDPFront
	defer func() {
		for _, f := range fronts {
			f.Close(2 * time.Second)
		}
	}()
	for range keys {
		f, err := kit.ServeUDP("127.0.0.1", ph)
		if err != nil {
			info.Skipped = err.Error()
			return nil
		}
		fronts = append(fronts, f)
	}
	// payload i of lane l is a pure function of (seed, l, i): the sink can tell whether what it got was ever sent
	payload := func(l, i int) []byte {
		b := kit.DetBytes(c.Seed+int64(l)*1_000_003+int64(i), c.PayloadSz)
		copy(b, fmt.Sprintf("L%02dN%06d", l, i))
		return b
	}
	addr := kit.SocksAddr("127.0.0.1", tgt.Addr.Port, false)
	var wg sync.WaitGroup
	start := make(chan struct{})
	for l := range fronts {
		wg.Add(1)
		go func(l int) {
			defer wg.Done()
			key := keys[l].Key()
			to := &net.UDPAddr{IP: net.IPv4(127, 0, 0, 1), Port: fronts[l].Addr.Port}
			<-start
			for i := 0; i < c.PerLane; i++ {
				cl, err := net.ListenUDP("udp", &net.UDPAddr{IP: net.IPv4(127, 0, 0, 1)}) // a new client address: a new association
				if err != nil {
					return
				}
				cl.WriteToUDP(kit.PackUDP(key, kit.DetBytes(c.Seed+int64(l)*7_000_003+int64(i), key.SaltSize()), append(append([]byte(nil), addr...), payload(l, i)...)), to)
				cl.Close()
			}
		}(l)
	}
	close(start)
	wg.Wait()
	last := -1
	kit.WaitFor(2*time.Second, func() bool {
		q := tgt.Queued()
		quiet := q == last
		last = q
		time.Sleep(20 * time.Millisecond)
		return quiet
	})
	got := tgt.Drain()
	info.Steps = len(fronts) * c.PerLane
	info.NonTrivial = len(got) > c.PerLane
	for _, d := range got {
		var l, i int
		if len(d.Data) < 11 {
			return kit.Violation("udp:payload-corrupt", "the target received a datagram of %d bytes that no client sent (%d listeners share one packet handler)", len(d.Data), len(fronts))
		}
		if _, err := fmt.Sscanf(string(d.Data[:11]), "L%02dN%06d", &l, &i); err != nil || l >= len(fronts) || i >= c.PerLane || !bytes.Equal(d.Data, payload(l, i)) {
			return kit.Violation("udp:payload-corrupt", "the target received a datagram of %d bytes (starting %q) that is not the payload of any datagram a client sent: first datagrams of new associations on %d listeners of one packet handler got mixed up", len(d.Data), d.Data[:11], len(fronts))
		}
	}
	return nil
}

func TestC03_Shared(t *testing.T) {
	p := kit.Prop[C03Shared]{ID: "C03", Name: "Shared", Quick: 24, Thorough: 2000, Gen: genC03Shared, Run: runC03Shared}
	p.Execute(t)
}
