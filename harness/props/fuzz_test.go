package props

// Coverage-guided fuzz targets (thorough tier only; the quick tier runs the same functions as
// ordinary rapid properties over random bytes and replays the committed corpus).
// Each target decodes the bytes into structured arguments so that the fuzzer reaches logic behind
// authentication, rebuilds all state per iteration, and carries a semantic oracle.

import (
	"context"
	"errors"
	"net"
	"os"
	"sync"
	"testing"
	"time"

	"github.com/Jigsaw-Code/outline-ss-server/service"
	"pgregory.net/rapid"
	"verif/harness/kit"
)

type FuzzCase struct {
	Data []byte `json:"data"`
	Sel  uint8  `json:"sel"`
}

var fuzzKeys = []kit.KeySpec{
	{ID: "f-chacha", Cipher: kit.Chacha, Secret: "fz1"}, {ID: "f-a256", Cipher: kit.AES256, Secret: "fz2"},
	{ID: "f-a192", Cipher: kit.AES192, Secret: "fz3"}, {ID: "f-a128", Cipher: kit.AES128, Secret: "fz4"},
	{ID: "f-a128-dup", Cipher: kit.AES128, Secret: "fz4"}, {ID: "f-chacha-samesecret", Cipher: kit.Chacha, Secret: "fz2"},
}

// ---- C01: raw opening bytes against the reference decision ---------------------------------------

func runFuzzAuth(c FuzzCase, info *kit.Info) *kit.Finding {
	// Sel chooses how the data is used: 0 = raw opening bytes; 1.. = plaintext encrypted under key Sel-1, then
	// optionally damaged by the last two bytes of data (offset, xor mask).
	wire := c.Data
	if k := int(c.Sel); k >= 1 && k <= len(fuzzKeys) && len(c.Data) >= 2 {
		key := fuzzKeys[k-1].Key()
		body := c.Data[:len(c.Data)-2]
		off, mask := int(c.Data[len(c.Data)-2]), c.Data[len(c.Data)-1]
		salt := kit.DetBytes(int64(len(body))*131+int64(c.Sel), key.SaltSize())
		wire = kit.EncodeStream(key, salt, body, []int{7, 100})
		if mask != 0 && off < len(wire) {
			wire[off] ^= mask
		}
	}
	var matched []kit.KeySpec
	if len(wire) >= 50 {
		for _, k := range fuzzKeys {
			if k.Key().OpensHeader(wire[:50]) {
				matched = append(matched, k)
			}
		}
	}
	dialer := &kit.RecDialer{}
	h := service.NewStreamHandler(service.NewShadowsocksStreamAuthenticator(kit.NewCipherList(fuzzKeys), nil, nil, nil), time.Second)
	h.SetTargetDialer(dialer)
	conn := kit.NewMemConn(wire, &net.TCPAddr{IP: net.IPv4(203, 0, 113, 77), Port: 7})
	rec := kit.NewRecTCPConn()
	h.Handle(context.Background(), conn, rec)
	cl, ok := rec.Closed()
	if !ok {
		return kit.Violation("handle:no-closed-report", "Handle returned without a close report")
	}
	id, auth := rec.AuthKey()
	info.NonTrivial = len(matched) > 0 || c.Sel > 0
	if len(matched) == 0 {
		if auth || cl.Status != "ERR_CIPHER" || dialer.NumDials() != 0 || len(conn.Output()) != 0 {
			return kit.Violation("auth:unsound", "%d opening bytes valid under no configured key: authenticated=%v(%q) status=%s dials=%d written=%d", len(wire), auth, id, cl.Status, dialer.NumDials(), len(conn.Output()))
		}
		return nil
	}
	if cl.Status == "ERR_REPLAY_SERVER" {
		return nil
	}
	allowed := map[string]bool{}
	for _, k := range matched {
		allowed[k.ID] = true
	}
	if !auth || !allowed[id] {
		return kit.Violation("auth:incomplete", "stream valid under %v: authenticated=%v as %q (status %s)", keysOf(allowed), auth, id, cl.Status)
	}
	return nil
}

func genFuzzCase(maxLen int) func(t *rapid.T) FuzzCase {
	return func(t *rapid.T) FuzzCase {
		return FuzzCase{Data: rapid.SliceOfN(rapid.Byte(), 0, maxLen).Draw(t, "data"), Sel: uint8(rapid.IntRange(0, 7).Draw(t, "sel"))}
	}
}

func TestC01_FuzzAuth(t *testing.T) {
	p := kit.Prop[FuzzCase]{ID: "C01", Name: "FuzzAuth", Quick: 20000, Thorough: 400000, Gen: genFuzzCase(300), Run: runFuzzAuth}
	p.Execute(t)
}

func fuzzSeeds(f *testing.F) {
	for _, s := range [][]byte{nil, {0}, {1, 127, 0, 0, 1, 0, 80}, {3, 0, 0, 80}, {3, 255}, {4}, {5, 1, 0}, kit.DetBytes(1, 49), kit.DetBytes(2, 50), kit.DetBytes(3, 51),
		append(kit.SocksAddrFor("127.0.0.1:9", false), "hello"...), append(kit.SocksAddr("localhost", 9, true), 0, 0), append(kit.SocksAddr("::1", 53, false), kit.DetBytes(4, 300)...)} {
		for sel := 0; sel <= 6; sel += 2 {
			f.Add(s, uint8(sel))
		}
	}
}

func fuzzReport(t *testing.T, id, name string, c FuzzCase, f *kit.Finding) {
	if f != nil {
		kit.WriteFail(id, name, c, f)
		t.Fatalf("%v", f)
	}
}

func FuzzC01Auth(f *testing.F) {
	fuzzSeeds(f)
	f.Fuzz(func(t *testing.T, data []byte, sel uint8) {
		c := FuzzCase{Data: data, Sel: sel % 8}
		fuzzReport(t, "C01", "FuzzAuth", c, runFuzzAuth(c, &kit.Info{}))
	})
}

// ---- C18: authenticated plaintext through the TCP handler ------------------------------------------

func runFuzzTCP(c FuzzCase, info *kit.Info) *kit.Finding {
	key := fuzzKeys[int(c.Sel)%len(fuzzKeys)].Key()
	// first byte pair = chunk plan, rest = plaintext (address header + payload as the fuzzer likes)
	plan := []int{1, 7}
	body := c.Data
	if len(body) >= 2 {
		plan = []int{int(body[0]) + 1, int(body[1]) + 1}
		body = body[2:]
	}
	wire := kit.EncodeStream(key, kit.DetBytes(int64(len(body)), key.SaltSize()), body, plan)
	panics0 := kit.Logs.PanicCount()
	dialer := &kit.RecDialer{Response: func(string) ([]byte, error) { return []byte("ok"), nil }}
	h := service.NewStreamHandler(service.NewShadowsocksStreamAuthenticator(kit.NewCipherList(fuzzKeys), nil, nil, nil), time.Second)
	h.SetTargetDialer(dialer)
	conn := kit.NewMemConn(wire, &net.TCPAddr{IP: net.IPv4(203, 0, 113, 78), Port: 8})
	rec := kit.NewRecTCPConn()
	done := make(chan struct{})
	go func() { defer close(done); h.Handle(context.Background(), conn, rec) }()
	select {
	case <-done:
	case <-time.After(10 * time.Second):
		return kit.Violation("robust:handler-stuck", "Handle did not return within 10 s for an in-memory connection that ended")
	}
	if _, ok := rec.Closed(); !ok {
		return kit.Violation("handle:no-closed-report", "Handle returned without a close report")
	}
	if _, auth := rec.AuthKey(); !auth && len(wire) >= 50 {
		return kit.Violation("auth:incomplete", "a stream encrypted under a configured key was not authenticated")
	}
	if n := kit.Logs.PanicCount(); n > panics0 {
		return kit.Violation("robust:panic-recovered", "%v", kit.Logs.PanicsSince(panics0))
	}
	// if the header is a complete valid address the payload must have reached the (fake) target unmodified
	if host, port, n, err := kit.ParseSocksAddr(body); err == nil && dialer.NumDials() == 1 {
		_ = host
		_ = port
		if got := dialer.Conns[0].Output(); string(got) != string(body[n:]) {
			return kit.Violation("relay:payload", "target received %d bytes, the plaintext after the %d-byte header is %d bytes", len(got), n, len(body)-n)
		}
		info.NonTrivial = true
	}
	return nil
}

func TestC18_FuzzTCP(t *testing.T) {
	p := kit.Prop[FuzzCase]{ID: "C18", Name: "FuzzTCP", Quick: 20000, Thorough: 400000, Gen: genFuzzCase(400), Run: runFuzzTCP}
	p.Execute(t)
}

func FuzzC18TCP(f *testing.F) {
	fuzzSeeds(f)
	f.Fuzz(func(t *testing.T, data []byte, sel uint8) {
		c := FuzzCase{Data: data, Sel: sel}
		fuzzReport(t, "C18", "FuzzTCP", c, runFuzzTCP(c, &kit.Info{}))
	})
}

// ---- C18: datagrams through the packet handler (in-memory client socket) ---------------------------

type memPacketConn struct {
	mu     sync.Mutex
	in     [][]byte
	from   net.Addr
	out    int
	closed chan struct{}
}

func (m *memPacketConn) ReadFrom(p []byte) (int, net.Addr, error) {
	m.mu.Lock()
	if len(m.in) > 0 {
		d := m.in[0]
		m.in = m.in[1:]
		m.mu.Unlock()
		return copy(p, d), m.from, nil
	}
	m.mu.Unlock()
	<-m.closed
	return 0, nil, net.ErrClosed
}
func (m *memPacketConn) WriteTo(p []byte, a net.Addr) (int, error) {
	m.mu.Lock()
	m.out++
	m.mu.Unlock()
	return len(p), nil
}
func (m *memPacketConn) Close() error { return nil }
func (m *memPacketConn) LocalAddr() net.Addr {
	return &net.UDPAddr{IP: net.IPv4(127, 0, 0, 1), Port: 9}
}
func (m *memPacketConn) SetDeadline(time.Time) error      { return nil }
func (m *memPacketConn) SetReadDeadline(time.Time) error  { return nil }
func (m *memPacketConn) SetWriteDeadline(time.Time) error { return nil }

var errNotLoopback = errors.New("fuzzing: only loopback destinations are allowed")

func runFuzzUDP(c FuzzCase, info *kit.Info) *kit.Finding {
	key := fuzzKeys[int(c.Sel)%len(fuzzKeys)].Key()
	var dgrams [][]byte
	if c.Sel >= 128 {
		dgrams = append(dgrams, c.Data) // raw
	} else {
		dgrams = append(dgrams, kit.PackUDP(key, kit.DetBytes(int64(len(c.Data)), key.SaltSize()), c.Data))
		// the same client again: the known-association path
		dgrams = append(dgrams, kit.PackUDP(key, kit.DetBytes(int64(len(c.Data))+1, key.SaltSize()), c.Data), c.Data)
	}
	panics0 := kit.Logs.PanicCount()
	ph := service.NewPacketHandler(50*time.Millisecond, kit.NewCipherList(fuzzKeys), nil, nil)
	ph.SetTargetIPValidator(func(ip net.IP) error {
		if !ip.IsLoopback() {
			return errNotLoopback
		}
		return nil
	})
	pc := &memPacketConn{in: dgrams, from: &net.UDPAddr{IP: net.IPv4(127, 0, 0, 1), Port: 40000}, closed: make(chan struct{})}
	done := make(chan struct{})
	go func() { defer close(done); ph.Handle(pc) }()
	// wait until the queue is drained, then shut down
	kit.WaitFor(2*time.Second, func() bool { pc.mu.Lock(); defer pc.mu.Unlock(); return len(pc.in) == 0 })
	close(pc.closed)
	select {
	case <-done:
	case <-time.After(10 * time.Second):
		return kit.Violation("robust:handle-did-not-return", "PacketHandler.Handle did not return within 10 s of its socket closing")
	}
	if n := kit.Logs.PanicCount(); n > panics0 {
		return kit.Violation("robust:panic-recovered", "%v", kit.Logs.PanicsSince(panics0))
	}
	info.NonTrivial = c.Sel < 128
	return nil
}

func TestC18_FuzzUDP(t *testing.T) {
	p := kit.Prop[FuzzCase]{ID: "C18", Name: "FuzzUDP", Quick: 8000, Thorough: 200000, Gen: func(t *rapid.T) FuzzCase {
		c := genFuzzCase(300)(t)
		c.Sel = uint8(rapid.IntRange(0, 255).Draw(t, "sel8"))
		return c
	}, Run: runFuzzUDP}
	p.Execute(t)
}

func FuzzC18UDP(f *testing.F) {
	fuzzSeeds(f)
	f.Fuzz(func(t *testing.T, data []byte, sel uint8) {
		c := FuzzCase{Data: data, Sel: sel}
		fuzzReport(t, "C18", "FuzzUDP", c, runFuzzUDP(c, &kit.Info{}))
	})
}

var _ = os.Getenv
