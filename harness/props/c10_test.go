package props

// C10 — configuration reload is all-or-nothing.
// A sequence of reload attempts on one running server (executor process); each attempt is a
// generated configuration plus a generated fault, so that every stage at which loading can fail
// is reached, including "after some services of the new generation already started".
// Model: the last configuration that loaded.

import (
	"fmt"
	"net"
	"os"
	"path/filepath"
	"strings"
	"testing"
	"time"

	"pgregory.net/rapid"
	"verif/harness/kit"
)

type C10Attempt struct {
	Config GConfig `json:"config"`
	Fault  string  `json:"fault"` // none | missing | malformed | badtype | hostname | duplicate | badcipher_svc | badcipher_legacy | unbindable
	Arg    int     `json:"arg"`
	Arg2   int     `json:"arg2"`
}

type C10Case struct {
	Universe []kit.KeySpec `json:"universe"`
	Attempts []C10Attempt  `json:"attempts"`
	Seed     int64         `json:"seed"`
	// ViaSignal: reloads are triggered the way operators do it - the file the server was started with is
	// rewritten and the process gets SIGHUP - instead of by calling the loader
	ViaSignal bool `json:"via_signal,omitempty"`
}

var c10Faults = []string{"none", "none", "missing", "malformed", "badtype", "hostname", "duplicate", "badcipher_svc", "badcipher_svc", "badcipher_legacy", "unbindable", "unbindable"}

func genC10(maxAttempts int) func(t *rapid.T) C10Case {
	return func(t *rapid.T) C10Case {
		c := C10Case{Universe: kit.GenKeyUniverse(t, 2, 6), Seed: rapid.Int64Range(1, 1<<40).Draw(t, "seed")}
		n := rapid.IntRange(1, maxAttempts).Draw(t, "nattempts")
		for i := 0; i <= n; i++ {
			a := C10Attempt{Config: genConfig(t, c.Universe, fmt.Sprintf("a%d.", i)), Fault: "none"}
			if i > 0 {
				a.Fault = rapid.SampledFrom(c10Faults).Draw(t, "fault")
				a.Arg = rapid.IntRange(0, 7).Draw(t, "arg")
				a.Arg2 = rapid.IntRange(0, 7).Draw(t, "arg2")
			}
			c.Attempts = append(c.Attempts, a)
		}
		c.ViaSignal = rapid.IntRange(0, 4).Draw(t, "viaSignal") == 0
		return c
	}
}

// applyFault renders the attempt. It returns the config path, whether loading must fail, how many
// listeners of the new generation are acquired before the failure point (-1 unknown/none), and a
// release function for resources the tester holds for the fault.
func applyFault(s *mainSession, a C10Attempt, serving map[endpoint]*endpointModel) (path string, mustFail bool, acquiredBefore int, release func()) {
	release = func() {}
	cfg := a.Config
	yaml := cfg.renderYAML(s.pt)
	acquiredBefore = -1
	switch a.Fault {
	case "none":
		return s.writeConfig(yaml), false, -1, release
	case "missing":
		return filepath.Join(s.dir, "does-not-exist.yml"), true, -1, release
	case "malformed":
		return s.writeConfig("services:\n  - listeners: [ {type: tcp, address: \n keys: ]]\n"), true, -1, release
	case "badtype", "hostname", "duplicate":
		if len(cfg.Services) == 0 || len(cfg.Services[a.Arg%len(cfg.Services)].Listeners) == 0 {
			return s.writeConfig(yaml), false, -1, release
		}
		svc := cfg.Services[a.Arg%len(cfg.Services)]
		l := svc.Listeners[a.Arg2%len(svc.Listeners)]
		line := fmt.Sprintf("      - type: %s\n        address: %s\n", l.Type, yq(s.pt.addr(l.Host, l.Slot)))
		var repl string
		switch a.Fault {
		case "badtype":
			// an unknown type, or a known one in a spelling the loader does not know ("tcp"/"udp" are lower case)
			bad := []string{"quic", strings.ToUpper(l.Type), strings.ToUpper(l.Type[:1]) + l.Type[1:], l.Type + " ", "sctp"}[(a.Arg+a.Arg2)%5]
			repl = fmt.Sprintf("      - type: %s\n        address: %s\n", yq(bad), yq(s.pt.addr(l.Host, l.Slot)))
		case "hostname":
			repl = fmt.Sprintf("      - type: %s\n        address: %s\n", l.Type, yq(fmt.Sprintf("localhost:%d", s.pt.ports[l.Slot])))
		case "duplicate":
			repl = line + line
		}
		return s.writeConfig(strings.Replace(yaml, line, repl, 1)), true, -1, release
	case "badcipher_svc":
		if len(cfg.Services) == 0 {
			return s.writeConfig(yaml), false, -1, release
		}
		i := a.Arg % len(cfg.Services)
		// count listeners acquired before service i is built: all legacy ports (2 each) + listeners of services < i
		acquiredBefore = 0
		seen := map[int]bool{}
		for _, k := range cfg.Legacy {
			if !seen[k.Slot] {
				seen[k.Slot] = true
				acquiredBefore += 2
			}
		}
		for j := 0; j < i; j++ {
			acquiredBefore += len(cfg.Services[j].Listeners)
		}
		// render with service i's key Arg2 carrying an unknown cipher
		mod := cfg
		mod.Services = append([]GService(nil), cfg.Services...)
		ks := append([]kit.KeySpec(nil), mod.Services[i].Keys...)
		j := a.Arg2 % len(ks)
		marker := fmt.Sprintf("BADCIPHER-%d-%d", i, j)
		ks[j] = kit.KeySpec{ID: marker, Cipher: kit.Chacha, Secret: "x"}
		mod.Services[i].Keys = ks
		y := mod.renderYAML(s.pt)
		y = strings.Replace(y, fmt.Sprintf("      - id: %s\n        cipher: %s\n", yq(marker), kit.Chacha), fmt.Sprintf("      - id: %s\n        cipher: not-a-cipher\n", yq(marker)), 1)
		return s.writeConfig(y), true, acquiredBefore, release
	case "badcipher_legacy":
		if len(cfg.Legacy) == 0 {
			return s.writeConfig(yaml), false, -1, release
		}
		mod := cfg
		mod.Legacy = append([]GLegacy(nil), cfg.Legacy...)
		j := a.Arg % len(mod.Legacy)
		marker := fmt.Sprintf("BADLEGACY-%d", j)
		mod.Legacy[j].KeySpec = kit.KeySpec{ID: marker, Cipher: kit.Chacha, Secret: "x"}
		y := mod.renderYAML(s.pt)
		y = strings.Replace(y, fmt.Sprintf("  - id: %s\n    port: %d\n    cipher: %s\n", yq(marker), s.pt.ports[mod.Legacy[j].Slot], kit.Chacha), fmt.Sprintf("  - id: %s\n    port: %d\n    cipher: not-a-cipher\n", yq(marker), s.pt.ports[mod.Legacy[j].Slot]), 1)
		return s.writeConfig(y), true, 0, release
	case "unbindable":
		// the tester holds the address of a listener of the new configuration that the serving one does not have
		type cand struct{ i, j int }
		var cands []cand
		for i, svc := range cfg.Services {
			for j, l := range svc.Listeners {
				if _, held := serving[endpoint{l.Type, s.pt.addr(l.Host, l.Slot)}]; !held {
					cands = append(cands, cand{i, j})
				}
			}
		}
		// legacy ports listen on all interfaces: the tester can hold the TCP side of one the serving configuration does not use
		var legacySlots []int
		seenL := map[int]bool{}
		for _, k := range cfg.Legacy {
			if _, held := serving[endpoint{"tcp", s.pt.addr("127.0.0.1", k.Slot)}]; !held && !seenL[k.Slot] {
				seenL[k.Slot] = true
				legacySlots = append(legacySlots, k.Slot)
			}
		}
		if len(legacySlots) > 0 && (len(cands) == 0 || a.Arg2%3 == 0) {
			slot := legacySlots[a.Arg%len(legacySlots)]
			h, err := net.Listen("tcp", fmt.Sprintf(":%d", s.pt.ports[slot]))
			if err != nil {
				return s.writeConfig(yaml), false, -1, release
			}
			release = func() { h.Close() }
			// legacy ports are started first, in map order: how many listeners were acquired before is not known
			return s.writeConfig(yaml), true, 1, release
		}
		if len(cands) == 0 {
			return s.writeConfig(yaml), false, -1, release
		}
		cd := cands[a.Arg%len(cands)]
		l := cfg.Services[cd.i].Listeners[cd.j]
		addr := s.pt.addr(l.Host, l.Slot)
		if l.Type == "tcp" {
			h, err := net.Listen("tcp", addr)
			if err != nil {
				return s.writeConfig(yaml), false, -1, release
			}
			release = func() { h.Close() }
		} else {
			h, err := net.ListenPacket("udp", addr)
			if err != nil {
				return s.writeConfig(yaml), false, -1, release
			}
			release = func() { h.Close() }
		}
		acquiredBefore = 0
		seen := map[int]bool{}
		for _, k := range cfg.Legacy {
			if !seen[k.Slot] {
				seen[k.Slot] = true
				acquiredBefore += 2
			}
		}
		for i := 0; i < cd.i; i++ {
			acquiredBefore += len(cfg.Services[i].Listeners)
		}
		acquiredBefore += cd.j
		return s.writeConfig(yaml), true, acquiredBefore, release
	}
	return s.writeConfig(yaml), false, -1, release
}

func runC10(c C10Case, info *kit.Info) *kit.Finding {
	s, why := newMainSession(c.Seed)
	if s == nil {
		info.Skipped = why
		return nil
	}
	defer s.close()
	base, err := s.ex.Do(map[string]any{"cmd": "resources"}, 10*time.Second)
	if err != nil {
		return execFailure(s, err)
	}
	// union of all endpoints ever mentioned
	union := map[endpoint]bool{}
	var unionList []endpoint
	addEndpoints := func(cfg GConfig) {
		for _, ep := range sortedEndpoints(cfg.serving(s.pt)) {
			if !union[ep] {
				union[ep] = true
				unionList = append(unionList, ep)
			}
		}
	}
	serving := map[endpoint]*endpointModel{}
	lateFailureThenMore := false
	startFile := ""
	for i, a := range c.Attempts {
		addEndpoints(a.Config)
		path, mustFail, acquired, release := applyFault(s, a, serving)
		cmd := "reload"
		if i == 0 {
			cmd = "run"
		}
		when := fmt.Sprintf("after attempt %d (fault %s)", i, a.Fault)
		if c.ViaSignal && i > 0 {
			// rewrite the file the server was started with, then SIGHUP; the outcome is only visible in what is served
			if b, rerr := os.ReadFile(path); rerr == nil {
				os.WriteFile(startFile, b, 0o644)
			} else {
				os.Remove(startFile)
			}
			r, err := s.ex.Do(map[string]any{"cmd": "sighup"}, 20*time.Second)
			if err != nil {
				release()
				return execFailure(s, err)
			}
			info.Class("fault:"+a.Fault, "reload-by-SIGHUP")
			want := serving
			if !mustFail {
				want = a.Config.serving(s.pt)
			}
			known := r.OK || strings.HasPrefix(r.Err, "reload failed")
			if known {
				release()
				if mustFail && r.OK {
					return kit.Violation("reload:faulty-config-accepted", "%s by SIGHUP: loading succeeded although the configuration is faulty", when)
				}
				if !mustFail && !r.OK && portTakenByOthers(r.Err) {
					info.Skipped = "port taken by another process"
					return nil
				}
				if !mustFail && !r.OK {
					return kit.Violation("reload:valid-config-rejected", "%s by SIGHUP: a valid configuration was not loaded: %s", when, r.Err)
				}
			}
			var f *kit.Finding
			deadline := time.Now()
			if !known {
				// the server did not say how it went (its log messages changed?): judge by what is served, within a bound
				deadline = time.Now().Add(6 * time.Second)
				if mustFail {
					time.Sleep(400 * time.Millisecond)
					release()
					deadline = time.Now()
				}
			}
			for {
				f, err = s.probeMatrix(want, unionList, c.Universe, when+" by SIGHUP", info)
				if err != nil {
					release()
					return execFailure(s, err)
				}
				if f == nil || time.Now().After(deadline) {
					break
				}
				time.Sleep(50 * time.Millisecond)
			}
			release()
			if f != nil {
				return f
			}
			serving = want
			continue
		}
		r, err := s.ex.Do(map[string]any{"cmd": cmd, "config": path}, 30*time.Second)
		release()
		if err != nil {
			return execFailure(s, err)
		}
		if i == 0 {
			startFile = path
		}
		info.Class("fault:" + a.Fault)
		if mustFail {
			if r.OK {
				return kit.Violation("reload:faulty-config-accepted", "%s: loading succeeded although the configuration is faulty", when)
			}
			if acquired > 0 {
				info.Class("failure-after-listeners-acquired")
				if i+1 < len(c.Attempts) {
					lateFailureThenMore = true
				}
			}
		} else {
			if !r.OK {
				if portTakenByOthers(r.Err) {
					info.Skipped = "port taken by another process"
					return nil
				}
				return kit.Violation("reload:valid-config-rejected", "%s: a valid configuration failed to load: %s", when, r.Err)
			}
			serving = a.Config.serving(s.pt)
		}
		f, err := s.probeMatrix(serving, unionList, c.Universe, when, info)
		if err != nil {
			return execFailure(s, err)
		}
		if f != nil {
			return f
		}
	}
	// Stop: nothing listens any more, and the server's goroutines and sockets are gone.
	if r, err := s.ex.Do(map[string]any{"cmd": "stop"}, 30*time.Second); err != nil {
		return execFailure(s, err)
	} else if !r.OK {
		return kit.Violation("reload:stop-error", "Stop failed: %s", r.Err)
	}
	f, err := s.probeMatrix(map[endpoint]*endpointModel{}, unionList, c.Universe, "after Stop", info)
	if err != nil {
		return execFailure(s, err)
	}
	if f != nil {
		return f
	}
	var last *kit.ExecResp
	ok := kit.WaitFor(4*time.Second, func() bool {
		last, err = s.ex.Do(map[string]any{"cmd": "resources"}, 10*time.Second)
		return err != nil || last.Goroutines <= base.Goroutines && last.Sockets <= base.Sockets
	})
	if err != nil {
		return execFailure(s, err)
	}
	if !ok {
		st := ""
		if len(last.Stacks) > 0 {
			st = last.Stacks[0]
		}
		return kit.Violation("reload:resources-left-after-stop", "4 s after Stop the server still has %d goroutines (baseline %d) and %d sockets (baseline %d); e.g.\n%s", last.Goroutines, base.Goroutines, last.Sockets, base.Sockets, st)
	}
	info.NonTrivial = lateFailureThenMore
	return nil
}

func TestC10_Reload(t *testing.T) {
	p := kit.Prop[C10Case]{ID: "C10", Name: "Reload", Quick: 200, Thorough: 12000, Gen: genC10(6), Run: runC10}
	p.Execute(t)
}
