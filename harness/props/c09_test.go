package props

// C09 — a key works exactly on the listeners its configuration binds it to.
// The real RunOutlineServer runs in the executor process with a generated YAML
// configuration; every (listener, key material of the universe) pair is probed.

import (
	"fmt"
	"sort"
	"testing"
	"time"

	"pgregory.net/rapid"
	"verif/harness/kit"
)

type C09Case struct {
	Universe []kit.KeySpec `json:"universe"`
	Config   GConfig       `json:"config"`
	Seed     int64         `json:"seed"`
}

func genC09(t *rapid.T) C09Case {
	c := C09Case{Universe: kit.GenKeyUniverse(t, 2, 8), Seed: rapid.Int64Range(1, 1<<40).Draw(t, "seed")}
	c.Config = genConfig(t, c.Universe, "")
	return c
}

func sortedEndpoints(m map[endpoint]*endpointModel) []endpoint {
	var out []endpoint
	for ep := range m {
		out = append(out, ep)
	}
	sort.Slice(out, func(i, j int) bool { return out[i].Proto+out[i].Addr < out[j].Proto+out[j].Addr })
	return out
}

func runC09(c C09Case, info *kit.Info) *kit.Finding {
	s, why := newMainSession(c.Seed)
	if s == nil {
		info.Skipped = why
		return nil
	}
	defer s.close()
	path := s.writeConfig(c.Config.renderYAML(s.pt))
	r, err := s.ex.Do(map[string]any{"cmd": "run", "config": path}, 20*time.Second)
	if err != nil {
		return execFailure(s, err)
	}
	if !r.OK {
		if portTakenByOthers(r.Err) {
			info.Skipped = "port taken by another process"
			return nil
		}
		return kit.Violation("config:valid-config-rejected", "a valid configuration failed to load: %s\n%s", r.Err, c.Config.renderYAML(s.pt))
	}
	model := c.Config.serving(s.pt)
	f, err := s.probeMatrix(model, sortedEndpoints(model), c.Universe, "after load", info)
	if err != nil {
		return execFailure(s, err)
	}
	if f != nil {
		return f
	}
	// non-trivial: >=2 services (or service + legacy port) with a key not shared, or a duplicated material inside a service
	groups := len(c.Config.Services)
	seenSlot := map[int]bool{}
	for _, l := range c.Config.Legacy {
		if !seenSlot[l.Slot] {
			seenSlot[l.Slot] = true
			groups++
		}
	}
	dup := false
	for _, sv := range c.Config.Services {
		m := map[string]bool{}
		for _, k := range sv.Keys {
			if m[k.Material()] {
				dup = true
			}
			m[k.Material()] = true
		}
	}
	info.NonTrivial = groups >= 2 || dup
	info.Class(fmt.Sprintf("groups:%d", min(groups, 4)), fmt.Sprintf("dup-in-service:%v", dup), fmt.Sprintf("legacy:%v", len(c.Config.Legacy) > 0))
	return nil
}

func portTakenByOthers(errText string) bool {
	return containsAny(errText, "address already in use")
}

func containsAny(s string, subs ...string) bool {
	for _, x := range subs {
		if len(x) > 0 && len(s) >= len(x) {
			for i := 0; i+len(x) <= len(s); i++ {
				if s[i:i+len(x)] == x {
					return true
				}
			}
		}
	}
	return false
}

// execFailure maps a dead or silent executor (= the server process under test) to a finding.
func execFailure(s *mainSession, err error) *kit.Finding {
	if err == kit.ErrExecDied {
		return kit.Violation("server:process-died", "the server process exited:\n%s", s.ex.Stderr(3000))
	}
	return kit.Violation("server:unresponsive", "%v\n%s", err, s.ex.Stderr(2000))
}

func TestC09_Config(t *testing.T) {
	p := kit.Prop[C09Case]{ID: "C09", Name: "Config", Quick: 400, Thorough: 40000, Gen: genC09, Run: runC09}
	p.Execute(t)
}
