package props

// C09 — a key works exactly on the listeners its configuration binds it to.
// The real RunOutlineServer runs in the executor process with a generated YAML
// configuration; every (listener, key material of the universe) pair is probed.

import (
	"fmt"
	"net"
	"sort"
	"strings"
	"testing"
	"time"

	"pgregory.net/rapid"
	"verif/harness/kit"
)

type C09Case struct {
	Universe []kit.KeySpec `json:"universe"`
	Config   GConfig       `json:"config"`
	Seed     int64         `json:"seed"`
	// Before: the configuration is not the first one of the process - another one was loaded before it, then a
	// reload failed while starting (bad cipher, unbindable address), then this one was loaded. What a key
	// opens is decided by the configuration that is loaded, whatever came before.
	Before      *GConfig `json:"before,omitempty"`
	BeforeFault string   `json:"before_fault,omitempty"`
	Arg         int      `json:"arg,omitempty"`
}

func genC09(t *rapid.T) C09Case {
	c := C09Case{Universe: kit.GenKeyUniverse(t, 2, 8), Seed: rapid.Int64Range(1, 1<<40).Draw(t, "seed")}
	c.Config = genConfig(t, c.Universe, "")
	if rapid.IntRange(0, 3).Draw(t, "history") == 0 {
		b := genConfig(t, c.Universe, "before.")
		c.Before = &b
		c.BeforeFault = rapid.SampledFrom([]string{"badcipher_svc", "badcipher_legacy", "unbindable", "none"}).Draw(t, "beforeFault")
		c.Arg = rapid.IntRange(0, 7).Draw(t, "arg")
	}
	return c
}

func sortedEndpoints(m map[endpoint]*endpointModel) []endpoint {
	var out []endpoint
	for ep := range m {
		out = append(out, ep)
	}
	sort.Slice(out, func(i, j int) bool { return out[i].Proto+out[i].Addr < out[j].Proto+out[j].Addr })
	return out
}

func runC09(c C09Case, info *kit.Info) *kit.Finding {
	s, why := newMainSession(c.Seed)
	if s == nil {
		info.Skipped = why
		return nil
	}
	defer s.close()
	cmd := "run"
	endpoints := map[endpoint]bool{}
	if c.Before != nil {
		// history: an earlier configuration, then a reload that fails while starting
		r, err := s.ex.Do(map[string]any{"cmd": "run", "config": s.writeConfig(c.Before.renderYAML(s.pt))}, 20*time.Second)
		if err != nil {
			return execFailure(s, err)
		}
		if !r.OK {
			info.Skipped = "the earlier configuration did not load: " + r.Err
			return nil
		}
		for ep := range c.Before.serving(s.pt) {
			endpoints[ep] = true
		}
		path, mustFail, _, release := applyFault(s, C10Attempt{Config: c.Config, Fault: c.BeforeFault, Arg: c.Arg, Arg2: c.Arg / 2}, c.Before.serving(s.pt))
		if mustFail {
			r, err = s.ex.Do(map[string]any{"cmd": "reload", "config": path}, 20*time.Second)
			release()
			if err != nil {
				return execFailure(s, err)
			}
			if r.OK {
				return kit.Violation("reload:faulty-config-accepted", "a reload with fault %s succeeded", c.BeforeFault)
			}
			info.Class("loaded-after-a-failed-reload")
		} else {
			release()
		}
		cmd = "reload"
	}
	path := s.writeConfig(c.Config.renderYAML(s.pt))
	r, err := s.ex.Do(map[string]any{"cmd": cmd, "config": path}, 20*time.Second)
	if err != nil {
		return execFailure(s, err)
	}
	if !r.OK {
		if portTakenByOthers(r.Err) {
			info.Skipped = "port taken by another process"
			return nil
		}
		return kit.Violation("config:valid-config-rejected", "a valid configuration failed to load: %s\n%s", r.Err, c.Config.renderYAML(s.pt))
	}
	model := c.Config.serving(s.pt)
	for ep := range model {
		endpoints[ep] = true
	}
	all := map[endpoint]*endpointModel{}
	for ep := range endpoints {
		all[ep] = nil
	}
	f, err := s.probeMatrix(model, sortedEndpoints(all), c.Universe, "after load", info)
	if err != nil {
		return execFailure(s, err)
	}
	if f != nil {
		return f
	}
	// non-trivial: >=2 services (or service + legacy port) with a key not shared, or a duplicated material inside a service
	groups := len(c.Config.Services)
	seenSlot := map[int]bool{}
	for _, l := range c.Config.Legacy {
		if !seenSlot[l.Slot] {
			seenSlot[l.Slot] = true
			groups++
		}
	}
	dup := false
	for _, sv := range c.Config.Services {
		m := map[string]bool{}
		for _, k := range sv.Keys {
			if m[k.Material()] {
				dup = true
			}
			m[k.Material()] = true
		}
	}
	info.NonTrivial = groups >= 2 || dup
	info.Class(fmt.Sprintf("groups:%d", min(groups, 4)), fmt.Sprintf("dup-in-service:%v", dup), fmt.Sprintf("legacy:%v", len(c.Config.Legacy) > 0))
	return nil
}

func portTakenByOthers(errText string) bool {
	return containsAny(errText, "address already in use")
}

func containsAny(s string, subs ...string) bool {
	for _, x := range subs {
		if len(x) > 0 && len(s) >= len(x) {
			for i := 0; i+len(x) <= len(s); i++ {
				if s[i:i+len(x)] == x {
					return true
				}
			}
		}
	}
	return false
}

// execFailure maps a dead or silent executor (= the server process under test) to a finding.
func execFailure(s *mainSession, err error) *kit.Finding {
	if err == kit.ErrExecDied {
		return kit.Violation("server:process-died", "the server process exited:\n%s", s.ex.Stderr(3000))
	}
	return kit.Violation("server:unresponsive", "%v\n%s", err, s.ex.Stderr(2000))
}

func TestC09_Config(t *testing.T) {
	p := kit.Prop[C09Case]{ID: "C09", Name: "Config", Quick: 400, Thorough: 40000, Gen: genC09, Run: runC09}
	p.Execute(t)
}

// ---- one socket named twice under different spellings ---------------------------------------------
// Two owners (two services, or a legacy port and a service) that name the same socket in different spellings
// cannot both own it. The server may refuse such a configuration (it does: the second bind fails); if it loads
// it, the socket must still belong to one owner: keys of both owners authenticating on it, or a key that
// authenticates only now and then, means connections are handed to a service that does not own the listener.

type C09Respell struct {
	Universe []kit.KeySpec `json:"universe"`
	Type     string        `json:"type"` // tcp | udp
	Pair     int           `json:"pair"`
	Seed     int64         `json:"seed"`
	Extra    GConfig       `json:"extra"` // unrelated services around the contested one
}

var c09Pairs = [][3]string{ // spelling of owner A, spelling of owner B, address to probe
	{"0.0.0.0", "::", "127.0.0.1"}, {"::", "0.0.0.0", "127.0.0.1"}, {"127.0.0.1", "::ffff:127.0.0.1", "127.0.0.1"}, {"::ffff:127.0.0.1", "127.0.0.1", "127.0.0.1"},
	{"::1", "0:0:0:0:0:0:0:1", "::1"}, {"0:0:0:0:0:0:0:1", "::1", "::1"}, {"legacy", "::", "127.0.0.1"}, {"legacy", "0.0.0.0", "127.0.0.1"}, {"::", "legacy", "127.0.0.1"},
}

func genC09Respell(t *rapid.T) C09Respell {
	c := C09Respell{Universe: kit.GenKeyUniverse(t, 2, 5), Type: rapid.SampledFrom([]string{"tcp", "tcp", "udp"}).Draw(t, "type"), Pair: rapid.IntRange(0, len(c09Pairs)-1).Draw(t, "pair"), Seed: rapid.Int64Range(1, 1<<40).Draw(t, "seed")}
	if rapid.Bool().Draw(t, "extra") {
		c.Extra = genConfig(t, c.Universe, "x")
		c.Extra.Legacy = nil
		for i := range c.Extra.Services { // keep clear of the contested slot
			var ls []GListener
			for _, l := range c.Extra.Services[i].Listeners {
				if l.Slot != 2 {
					ls = append(ls, l)
				}
			}
			c.Extra.Services[i].Listeners = ls
		}
	}
	return c
}

func runC09Respell(c C09Respell, info *kit.Info) *kit.Finding {
	pair := c09Pairs[c.Pair%len(c09Pairs)]
	if (pair[2] == "::1" || pair[0] == "::" || pair[1] == "::") && !kit.HaveAddr("::1") {
		info.Skipped = "no IPv6 loopback"
		return nil
	}
	s, why := newMainSession(c.Seed)
	if s == nil {
		info.Skipped = why
		return nil
	}
	defer s.close()
	ka := kit.KeySpec{ID: "owner-a", Cipher: kit.Chacha, Secret: "respell-a"}
	kb := kit.KeySpec{ID: "owner-b", Cipher: kit.AES128, Secret: "respell-b"}
	port := s.pt.ports[2]
	var svc, legacy strings.Builder
	svc.WriteString("services:\n")
	for i, sp := range pair[:2] {
		k := []kit.KeySpec{ka, kb}[i]
		if sp == "legacy" {
			fmt.Fprintf(&legacy, "keys:\n  - id: %s\n    port: %d\n    cipher: %s\n    secret: %s\n", k.ID, port, k.Cipher, k.Secret)
			continue
		}
		fmt.Fprintf(&svc, "  - listeners:\n      - type: %s\n        address: %s\n    keys:\n      - id: %s\n        cipher: %s\n        secret: %s\n", c.Type, yq(net.JoinHostPort(sp, fmt.Sprint(port))), k.ID, k.Cipher, k.Secret)
	}
	extra := strings.TrimPrefix(c.Extra.renderYAML(s.pt), "services:\n")
	yaml := svc.String() + extra + legacy.String()
	path := s.writeConfig(yaml)
	r, err := s.ex.Do(map[string]any{"cmd": "run", "config": path}, 20*time.Second)
	if err != nil {
		return execFailure(s, err)
	}
	info.NonTrivial = true
	info.Class("respell:"+pair[0]+"+"+pair[1], fmt.Sprintf("respell-loaded:%v", r.OK))
	if !r.OK {
		return nil // refused as a whole: nobody is served by a contradictory configuration
	}
	probe := net.JoinHostPort(pair[2], fmt.Sprint(port))
	var auth [2][]bool
	for round := 0; round < 6; round++ {
		for i, k := range []kit.KeySpec{ka, kb} {
			var pr probeResult
			var f *kit.Finding
			if c.Type == "tcp" {
				pr, f, err = s.probeTCP(probe, k.Key())
			} else {
				pr, f, err = s.probeUDP(probe, k.Key())
			}
			if err != nil {
				return execFailure(s, err)
			}
			if f != nil {
				return f
			}
			info.Steps++
			if pr.NoVerdict || !pr.Listening {
				continue
			}
			auth[i] = append(auth[i], pr.Auth)
		}
	}
	some := func(b []bool) (any, all bool) {
		all = len(b) > 0
		for _, x := range b {
			any = any || x
			all = all && x
		}
		return
	}
	anyA, allA := some(auth[0])
	anyB, allB := some(auth[1])
	if anyA && anyB {
		return kit.Violation("config:socket-serves-two-services", "%s %s is named by two owners (%q and %q); the configuration loaded and the keys of BOTH authenticate on it (owner A's key: %v, owner B's key: %v): clients of one service are served by a listener of another\n%s", c.Type, probe, pair[0], pair[1], auth[0], auth[1], yaml)
	}
	if anyA != allA || anyB != allB {
		return kit.Violation("config:unstable-ownership", "%s %s is named by two owners (%q and %q); the configuration loaded and a key authenticates only some of the time (owner A's key: %v, owner B's key: %v)\n%s", c.Type, probe, pair[0], pair[1], auth[0], auth[1], yaml)
	}
	return nil
}

func TestC09_Respelled(t *testing.T) {
	p := kit.Prop[C09Respell]{ID: "C09", Name: "Respelled", Quick: 60, Thorough: 3000, Gen: genC09Respell, Run: runC09Respell}
	p.Execute(t)
}
