package props

// C02 — TCP relay delivers both byte streams intact, in order, with half-close.
//
// A generated two-party script over real loopback TCP: raw client socket +
// independent codec -> real StreamServe/StreamHandler -> scripted target.
// Oracle: two FIFO byte streams with an EOF marker each.

import (
	"bytes"
	"context"
	"encoding/binary"
	"fmt"
	"io"
	"net"
	"sync"
	"testing"
	"time"

	"github.com/Jigsaw-Code/outline-sdk/transport"
	"github.com/Jigsaw-Code/outline-ss-server/service"
	"pgregory.net/rapid"
	"verif/harness/kit"
)

type C02Step struct {
	Kind  string `json:"kind"` // csend | tsend | both | cfin | tfin | sync
	N     int    `json:"n,omitempty"`
	M     int    `json:"m,omitempty"` // target bytes for "both"
	Seed  int64  `json:"seed,omitempty"`
	Plan  []int  `json:"plan,omitempty"`
	Seg   []int  `json:"seg,omitempty"`
	GapUs int    `json:"gap_us,omitempty"`
}

type C02Case struct {
	Cipher    string    `json:"cipher"`
	AddrForm  string    `json:"addr_form"` // ip4 | ip6 | domain | ipdomain
	FirstData int       `json:"first_data"`
	FirstPlan []int     `json:"first_plan"`
	FirstSeg  []int     `json:"first_seg"`
	Seed      int64     `json:"seed"`
	Steps     []C02Step `json:"steps"`
	// SlowTarget > 0: final phase in which the target half-closes first and then does not read while the client
	// uploads this many bytes and half-closes; the target only resumes reading once the proxy is done with the
	// connection. Everything must still arrive, followed by a normal end of stream.
	SlowTarget int `json:"slow_target"`
}

func genSizes(t *rapid.T, label string, big int) []int {
	return rapid.SliceOfN(rapid.OneOf(rapid.IntRange(1, 40), rapid.IntRange(1, 2000), rapid.SampledFrom([]int{1, 2, 16383, 16384, 0x3FFF, big})), 0, 6).Draw(t, label)
}

func genC02(maxBytes int) func(t *rapid.T) C02Case {
	sizeGen := rapid.OneOf(rapid.IntRange(0, 64), rapid.IntRange(0, 4000), rapid.SampledFrom([]int{16383, 16384, 16385, 32766, 40000}), rapid.IntRange(0, maxBytes))
	return func(t *rapid.T) C02Case {
		c := C02Case{
			Cipher:   rapid.SampledFrom(kit.AllCiphers).Draw(t, "cipher"),
			AddrForm: rapid.SampledFrom([]string{"ip4", "ip4", "ip6", "domain", "ipdomain"}).Draw(t, "addrform"),
			Seed:     rapid.Int64Range(1, 1<<40).Draw(t, "seed"),
		}
		c.FirstData = rapid.SampledFrom([]int{0, 0, 1, 10, 1000, 16383, 20000}).Draw(t, "firstdata")
		// chunk plan of the first send: biased to split the 7/19/n-byte address, end exactly on it, or run past it
		c.FirstPlan = rapid.SliceOfN(rapid.SampledFrom([]int{1, 2, 3, 6, 7, 8, 18, 19, 20, 11, 12, 100, 16383}), 0, 5).Draw(t, "firstplan")
		c.FirstSeg = genSizes(t, "firstseg", 50)
		c.SlowTarget = rapid.SampledFrom([]int{0, 0, 0, 0, 300_000, 1 << 20}).Draw(t, "slowtarget")
		n := rapid.IntRange(0, 10).Draw(t, "nsteps")
		for i := 0; i < n; i++ {
			s := C02Step{Kind: rapid.SampledFrom([]string{"csend", "tsend", "both", "cfin", "tfin", "sync", "csend", "tsend"}).Draw(t, "kind")}
			switch s.Kind {
			case "csend", "tsend", "both":
				s.N = sizeGen.Draw(t, "n")
				s.Seed = rapid.Int64Range(1, 1<<40).Draw(t, "sseed")
				s.Plan = genSizes(t, "plan", 9000)
				s.Seg = genSizes(t, "seg", 70000)
				s.GapUs = rapid.SampledFrom([]int{0, 0, 0, 100, 1500}).Draw(t, "gap")
				if s.Kind == "both" {
					s.M = sizeGen.Draw(t, "m")
				}
			}
			c.Steps = append(c.Steps, s)
		}
		return c
	}
}

func firstDiff(a, b []byte) int {
	n := min(len(a), len(b))
	for i := 0; i < n; i++ {
		if a[i] != b[i] {
			return i
		}
	}
	if len(a) != len(b) {
		return n
	}
	return -1
}

const c02Bound = 8 * time.Second

func runC02(c C02Case, info *kit.Info) *kit.Finding {
	tip, host := "127.0.0.1", "127.0.0.1"
	domain := false
	switch c.AddrForm {
	case "ip6":
		tip, host = "::1", "::1"
		if !kit.HaveAddr("::1") {
			info.Skipped = "no ::1"
			return nil
		}
	case "domain":
		host, domain = "localhost", true
	case "ipdomain":
		domain = true
	}
	tgt, err := kit.NewTCPTarget(tip)
	if err != nil {
		info.Skipped = "cannot listen for target: " + err.Error()
		return nil
	}
	defer tgt.Close()

	keys := []kit.KeySpec{{ID: "distractor", Cipher: kit.AES192, Secret: "other"}, {ID: "user", Cipher: c.Cipher, Secret: "the-secret"}}
	key := keys[1].Key()
	h := service.NewStreamHandler(service.NewShadowsocksStreamAuthenticator(kit.NewCipherList(keys), nil, nil, nil), 5*time.Second)
	h.SetTargetDialer(kit.PermissiveDialer)
	rec := kit.NewRecTCPConn()
	front, err := kit.ServeTCP("127.0.0.1", func(ctx context.Context, conn transport.StreamConn) { h.Handle(ctx, conn, rec) })
	if err != nil {
		info.Skipped = "cannot listen for proxy: " + err.Error()
		return nil
	}
	defer front.Close(2 * time.Second)

	cl, err := kit.DialTCP(front.Addr, 5*time.Second)
	if err != nil {
		if kit.EnvNetError(err) {
			info.Skipped = "host out of ports: " + err.Error()
			return nil
		}
		return kit.Violation("relay:dial-refused", "cannot connect to the proxy: %v", err)
	}
	cconn := cl
	defer cconn.Close()
	dec := kit.NewStreamDecoder(key)
	var decErr error
	cr := kit.NewSideReader(cconn, func(b []byte) {
		if e := dec.Feed(b); e != nil && decErr == nil {
			decErr = e
		}
	})
	clientPlainLen := func() (n int) { cr.Locked(func() { n = len(dec.Plain) }); return }

	enc := kit.NewStreamEncoder(key, kit.PrefixedSalt(c.Seed, key.SaltSize(), int(c.Seed%31)%len(kit.SaltPrefixes)*int((c.Seed/31)%2))) // every other case: a salt that opens like another protocol
	encode := func(plain []byte, plan []int) []byte {
		var out []byte
		for _, n := range plan {
			if len(plain) == 0 {
				break
			}
			n = max(1, min(n, 0x3FFF, len(plain)))
			out = append(out, enc.Chunk(plain[:n])...)
			plain = plain[n:]
		}
		for len(plain) > 0 {
			n := min(len(plain), 0x3FFF)
			out = append(out, enc.Chunk(plain[:n])...)
			plain = plain[n:]
		}
		return out
	}

	addr := kit.SocksAddr(host, tgt.Port(), domain)
	first := kit.DetBytes(c.Seed+1, c.FirstData)
	wire := encode(append(append([]byte(nil), addr...), first...), c.FirstPlan)
	if err := kit.WriteSegmented(cconn, wire, c.FirstSeg, 0); err != nil {
		return kit.Violation("relay:client-write", "writing the first chunk failed: %v", err)
	}
	tconn := tgt.Accept(c02Bound)
	if tconn == nil {
		return kit.Violation("relay:no-target-connection", "no connection reached the target within %v after a valid header (%s, plan %v)", c02Bound, c.AddrForm, c.FirstPlan)
	}
	tr := kit.NewSideReader(tconn, nil)

	cSent := append([]byte(nil), first...)
	var tSent []byte
	var cFin, tFin bool
	var cFinAt, tFinAt time.Time
	chunks := 0
	finThenOpposite := false
	if len(c.FirstPlan) > 0 && c.FirstPlan[0] != len(addr) || c.FirstData > 0 {
		info.NonTrivial = true // split or coalesced address
		info.Class("addr:split-or-coalesced")
	}

	premature := func() *kit.Finding {
		if _, eof, rerr, _ := tr.State(); (eof || rerr != nil) && !cFin {
			return kit.Violation("relay:premature-eof-target", "target saw end of stream (eof=%v err=%v) although the client has not half-closed", eof, rerr)
		}
		if _, eof, rerr, _ := cr.State(); (eof || rerr != nil) && !tFin {
			return kit.Violation("relay:premature-eof-client", "client saw end of stream (eof=%v err=%v) although the target has not half-closed", eof, rerr)
		}
		return nil
	}
	syncUp := func(final bool) *kit.Finding {
		ok := kit.WaitFor(c02Bound, func() bool {
			if _, _, e, _ := tr.State(); e != nil {
				return true // the target's connection broke: judge at once
			}
			if _, _, e, _ := cr.State(); e != nil {
				return true
			}
			if tr.Len() < len(cSent) || clientPlainLen() < len(tSent) {
				return false
			}
			if cFin {
				if _, eof, e, _ := tr.State(); !eof && e == nil {
					return false
				}
			}
			if tFin {
				if _, eof, e, _ := cr.State(); !eof && e == nil {
					return false
				}
			}
			return true
		})
		got := tr.Bytes()
		if d := firstDiff(got[:min(len(got), len(cSent))], cSent[:min(len(got), len(cSent))]); d >= 0 {
			return kit.Violation("relay:c2t-corrupt", "target stream differs from what the client sent at offset %d (received %d of %d)", d, len(got), len(cSent))
		}
		if len(got) > len(cSent) {
			return kit.Violation("relay:c2t-extra", "target received %d bytes, client sent only %d (duplication?)", len(got), len(cSent))
		}
		var plain []byte
		cr.Locked(func() { plain = append([]byte(nil), dec.Plain...) })
		if decErr != nil {
			return kit.Violation("relay:t2c-undecryptable", "client cannot decrypt the server stream under its key: %v after %d plaintext bytes", decErr, len(plain))
		}
		if d := firstDiff(plain[:min(len(plain), len(tSent))], tSent[:min(len(plain), len(tSent))]); d >= 0 {
			return kit.Violation("relay:t2c-corrupt", "client stream differs from what the target sent at offset %d (received %d of %d)", d, len(plain), len(tSent))
		}
		if len(plain) > len(tSent) {
			return kit.Violation("relay:t2c-extra", "client decrypted %d bytes, target sent only %d", len(plain), len(tSent))
		}
		if f := premature(); f != nil {
			return f
		}
		if _, _, terr, _ := tr.State(); terr != nil {
			return kit.Violation("relay:c2t-broken", "the target's connection broke (%v) after %d of the %d bytes the client sent (client half-closed: %v)", terr, tr.Len(), len(cSent), cFin)
		}
		if _, _, cerr, _ := cr.State(); cerr != nil {
			return kit.Violation("relay:t2c-broken", "the client's connection broke (%v) after %d of the %d bytes the target sent (target half-closed: %v)", cerr, clientPlainLen(), len(tSent), tFin)
		}
		if !ok {
			tn, teof, terr, _ := tr.State()
			_, ceof, cerr, _ := cr.State()
			return kit.Violation("relay:stalled", "after %v: target has %d/%d bytes (eof=%v err=%v, client fin=%v), client has %d/%d plaintext bytes (eof=%v err=%v, target fin=%v)",
				c02Bound, tn, len(cSent), teof, terr, cFin, len(plain), len(tSent), ceof, cerr, tFin)
		}
		if cFin {
			if n, eof, e, at := tr.State(); !eof || e != nil || n != len(cSent) || at.Before(cFinAt) {
				return kit.Violation("relay:c2t-eof", "target end-of-stream wrong: eof=%v err=%v bytes=%d/%d, seen %v before the client's CloseWrite", eof, e, n, len(cSent), cFinAt.Sub(at))
			}
		}
		if tFin {
			if _, eof, e, at := cr.State(); !eof || e != nil || at.Before(tFinAt) || dec.Pending() != 0 {
				return kit.Violation("relay:t2c-eof", "client end-of-stream wrong: eof=%v err=%v pending=%d, seen %v before the target's CloseWrite", eof, e, dec.Pending(), tFinAt.Sub(at))
			}
		}
		return nil
	}

	csend := func(s C02Step) *kit.Finding {
		if cFin || s.N == 0 {
			return nil
		}
		data := kit.DetBytes(s.Seed, s.N)
		w := encode(data, s.Plan)
		cSent = append(cSent, data...)
		if tFin {
			finThenOpposite = true
		}
		if err := kit.WriteSegmented(cconn, w, s.Seg, time.Duration(s.GapUs)*time.Microsecond); err != nil {
			return kit.Violation("relay:client-write", "client write failed: %v (target fin=%v)", err, tFin)
		}
		return nil
	}
	tsend := func(n int, seed int64, seg []int, gapUs int) *kit.Finding {
		if tFin || n == 0 {
			return nil
		}
		data := kit.DetBytes(seed+17, n)
		tSent = append(tSent, data...)
		if cFin {
			finThenOpposite = true
		}
		if n > 0x3FFF {
			chunks += 2
		}
		if err := kit.WriteSegmented(tconn, data, seg, time.Duration(gapUs)*time.Microsecond); err != nil {
			return kit.Violation("relay:target-write", "target write failed: %v (client fin=%v)", err, cFin)
		}
		return nil
	}

	for _, s := range c.Steps {
		info.Steps++
		if f := premature(); f != nil {
			return f
		}
		var f *kit.Finding
		switch s.Kind {
		case "csend":
			if len(s.Plan) > 1 || s.N > 0x3FFF {
				chunks += 2
			}
			f = csend(s)
		case "tsend":
			f = tsend(s.N, s.Seed, s.Seg, s.GapUs)
		case "both":
			var wg sync.WaitGroup
			var f2 *kit.Finding
			wg.Add(1)
			go func() { defer wg.Done(); f2 = tsend(s.M, s.Seed, s.Seg, s.GapUs) }()
			f = csend(s)
			wg.Wait()
			if f == nil {
				f = f2
			}
		case "cfin":
			if !cFin {
				cFin, cFinAt = true, time.Now()
				cconn.CloseWrite()
			}
		case "tfin":
			if !tFin {
				tFin, tFinAt = true, time.Now()
				tconn.CloseWrite()
			}
		case "sync":
			f = syncUp(false)
		}
		if f != nil {
			return f
		}
	}
	// Final: check, then half-close whatever is still open, in a seed-chosen order.
	if f := syncUp(false); f != nil {
		return f
	}
	if c.SlowTarget > 0 && !cFin {
		info.Class("slow-target-final")
		info.NonTrivial = true
		if !tFin {
			tFin, tFinAt = true, time.Now()
			tconn.CloseWrite()
		}
		tr.Pause()
		data := kit.DetBytes(c.Seed+99, c.SlowTarget)
		cSent = append(cSent, data...)
		werr := make(chan error, 1)
		go func() {
			_, err := cconn.Write(encode(data, nil))
			if err == nil {
				err = cconn.CloseWrite()
			}
			werr <- err
		}()
		// the target stays deaf until the proxy has finished with the connection (or 1.5 s)
		select {
		case <-rec.Done():
		case <-time.After(1500 * time.Millisecond):
		}
		tr.Resume()
		select {
		case err := <-werr:
			if err != nil {
				return kit.Violation("relay:client-write", "client upload to a slow target failed: %v", err)
			}
		case <-time.After(c02Bound):
			return kit.Violation("relay:stalled", "client upload of %d bytes to a slow target did not finish within %v", c.SlowTarget, c02Bound)
		}
		cFin, cFinAt = true, time.Now().Add(-c02Bound) // the half-close happened inside the writer goroutine, before now
	}
	order := []string{"c", "t"}
	if c.Seed%2 == 0 {
		order = []string{"t", "c"}
	}
	for _, who := range order {
		if who == "c" && !cFin {
			cFin, cFinAt = true, time.Now()
			cconn.CloseWrite()
		}
		if who == "t" && !tFin {
			tFin, tFinAt = true, time.Now()
			tconn.CloseWrite()
		}
		if f := syncUp(true); f != nil {
			return f
		}
	}
	select {
	case <-rec.Done():
	case <-time.After(c02Bound):
		return kit.Violation("relay:never-closed", "both directions ended but the connection was not reported closed within %v", c02Bound)
	}
	if ev, _ := rec.Closed(); ev.Status != "OK" {
		return kit.Violation("relay:status", "complete relay reported status %q, want OK", ev.Status)
	}
	if chunks > 0 || finThenOpposite {
		info.NonTrivial = true
	}
	if finThenOpposite {
		info.Class("halfclose-then-opposite-traffic")
	}
	if chunks > 0 {
		info.Class("multi-chunk")
	}
	info.Class("addr:" + c.AddrForm)
	_ = bytes.Equal
	_ = fmt.Sprint
	return nil
}

func TestC02_Relay(t *testing.T) {
	maxBytes := 120_000
	if kit.Tier() == "thorough" {
		maxBytes = 2 << 20
	}
	p := kit.Prop[C02Case]{ID: "C02", Name: "Relay", Quick: 6000, Thorough: 120000, Gen: genC02(maxBytes), Run: runC02}
	p.Execute(t)
}

// ---- concurrent relays -----------------------------------------------------------------------
// Many connections at once through one handler and one key list: every one of them must relay its own
// bytes intact in both directions (nothing shared between handshakes may leak from one into another).

type C02Conc struct {
	Cipher  string `json:"cipher"`
	Workers int    `json:"workers"`
	PerW    int    `json:"per_worker"`
	Up      int    `json:"up"`
	Down    int    `json:"down"`
	Seed    int64  `json:"seed"`
}

func genC02Conc(t *rapid.T) C02Conc {
	return C02Conc{Cipher: rapid.SampledFrom(kit.AllCiphers).Draw(t, "cipher"), Workers: rapid.IntRange(2, 16).Draw(t, "workers"), PerW: rapid.IntRange(10, 120).Draw(t, "perw"),
		Up: rapid.SampledFrom([]int{0, 1, 30, 2000}).Draw(t, "up"), Down: rapid.SampledFrom([]int{1, 30, 2000}).Draw(t, "down"), Seed: rapid.Int64Range(1, 1<<40).Draw(t, "seed")}
}

func runC02Conc(c C02Conc, info *kit.Info) *kit.Finding {
	keys := []kit.KeySpec{{ID: "a", Cipher: kit.AES128, Secret: "other-a"}, {ID: "user", Cipher: c.Cipher, Secret: "the-secret"}, {ID: "b", Cipher: kit.Chacha, Secret: "other-b"}}
	key := keys[1].Key()
	h := service.NewStreamHandler(service.NewShadowsocksStreamAuthenticator(kit.NewCipherList(keys), nil, nil, nil), 5*time.Second)
	h.SetTargetDialer(kit.PermissiveDialer)
	front, err := kit.ServeTCP("127.0.0.1", func(ctx context.Context, conn transport.StreamConn) { h.Handle(ctx, conn, nil) })
	if err != nil {
		info.Skipped = err.Error()
		return nil
	}
	defer front.Close(3 * time.Second)
	// echo-style target: answers every connection with `Down` bytes derived from the first 8 bytes it received
	tl, err := kit.ListenTCPLow(&net.TCPAddr{IP: net.IPv4(127, 0, 0, 1)})
	if err != nil {
		info.Skipped = err.Error()
		return nil
	}
	defer tl.Close()
	go func() {
		for {
			tc, err := tl.AcceptTCP()
			if err != nil {
				return
			}
			go func() {
				defer tc.Close()
				tc.SetDeadline(time.Now().Add(c02Bound))
				hdr := make([]byte, 8)
				if _, err := io.ReadFull(tc, hdr); err != nil {
					return
				}
				id := int64(binary.BigEndian.Uint64(hdr))
				rest, _ := io.ReadAll(tc)
				want := kit.DetBytes(id, c.Up)
				ok := byte(1)
				if !bytes.Equal(rest, want) {
					ok = 0
				}
				tc.Write(append([]byte{ok}, kit.DetBytes(id+1, c.Down)...))
			}()
		}
	}()
	var wg sync.WaitGroup
	var mu sync.Mutex
	var fnd *kit.Finding
	fail := func(f *kit.Finding) {
		mu.Lock()
		if fnd == nil {
			fnd = f
		}
		mu.Unlock()
	}
	addr := kit.SocksAddrFor(tl.Addr().String(), false)
	for w := 0; w < c.Workers; w++ {
		wg.Add(1)
		go func(w int) {
			defer wg.Done()
			for i := 0; i < c.PerW; i++ {
				mu.Lock()
				stop := fnd != nil
				mu.Unlock()
				if stop {
					return
				}
				id := c.Seed + int64(w)*1_000_003 + int64(i)
				cn, err := kit.DialTCP(front.Addr, c02Bound)
				if err != nil {
					if !kit.EnvNetError(err) {
						fail(kit.Violation("relay:dial-refused", "%v", err))
					}
					return
				}
				hdr := make([]byte, 8)
				binary.BigEndian.PutUint64(hdr, uint64(id))
				plain := append(append(append([]byte(nil), addr...), hdr...), kit.DetBytes(id, c.Up)...)
				cn.Write(kit.EncodeStream(key, kit.DetBytes(id+7, key.SaltSize()), plain, []int{len(addr) + 8}))
				cn.CloseWrite()
				cn.SetReadDeadline(time.Now().Add(c02Bound))
				raw, rerr := io.ReadAll(cn)
				cn.SetLinger(0)
				cn.Close()
				dec := kit.NewStreamDecoder(key)
				if derr := dec.Feed(raw); derr != nil || rerr != nil || len(dec.Plain) != 1+c.Down {
					fail(kit.Violation("relay:concurrent-broken", "connection %d of worker %d (one of %d concurrent workers): the client got %d plaintext bytes back (want %d; read err %v, decrypt err %v): its request was not relayed", i, w, c.Workers, len(dec.Plain), 1+c.Down, rerr, derr))
					return
				}
				if dec.Plain[0] != 1 {
					fail(kit.Violation("relay:c2t-corrupt", "connection %d of worker %d: the target did not receive exactly the client's %d bytes", i, w, c.Up))
					return
				}
				if !bytes.Equal(dec.Plain[1:], kit.DetBytes(id+1, c.Down)) {
					fail(kit.Violation("relay:t2c-corrupt", "connection %d of worker %d: the client did not receive exactly the target's %d bytes (another connection's data?)", i, w, c.Down))
					return
				}
			}
		}(w)
	}
	wg.Wait()
	info.NonTrivial, info.Steps = true, c.Workers*c.PerW
	return fnd
}

func TestC02_Concurrent(t *testing.T) {
	p := kit.Prop[C02Conc]{ID: "C02", Name: "Concurrent", Quick: 60, Thorough: 4000, Gen: genC02Conc, Run: runC02Conc}
	p.Execute(t)
}

// ---- both directions under back-pressure -----------------------------------------------------------
// The client uploads a large stream and does not read meanwhile; the target pushes a large stream at once and
// reads at full speed. Each direction must go on while the other one is blocked: the upload completes, then the
// client reads everything the target sent.

type C02Duplex struct {
	Cipher string `json:"cipher"`
	UpMB   int    `json:"up_mb"`
	DownMB int    `json:"down_mb"`
	Seed   int64  `json:"seed"`
}

func genC02Duplex(t *rapid.T) C02Duplex {
	return C02Duplex{Cipher: rapid.SampledFrom(kit.AllCiphers).Draw(t, "cipher"), UpMB: rapid.IntRange(12, 40).Draw(t, "up"), DownMB: rapid.IntRange(12, 40).Draw(t, "down"), Seed: rapid.Int64Range(1, 1<<40).Draw(t, "seed")}
}

func runC02Duplex(c C02Duplex, info *kit.Info) *kit.Finding {
	ks := kit.KeySpec{ID: "user", Cipher: c.Cipher, Secret: "duplex"}
	key := ks.Key()
	h := service.NewStreamHandler(service.NewShadowsocksStreamAuthenticator(kit.NewCipherList([]kit.KeySpec{ks}), nil, nil, nil), 5*time.Second)
	h.SetTargetDialer(kit.PermissiveDialer)
	front, err := kit.ServeTCP("127.0.0.1", func(ctx context.Context, conn transport.StreamConn) { h.Handle(ctx, conn, nil) })
	if err != nil {
		info.Skipped = err.Error()
		return nil
	}
	defer front.Close(3 * time.Second)
	tl, err := kit.ListenTCPLow(&net.TCPAddr{IP: net.IPv4(127, 0, 0, 1)})
	if err != nil {
		info.Skipped = err.Error()
		return nil
	}
	defer tl.Close()
	block := kit.DetBytes(c.Seed, 1<<20)
	type tres struct {
		got  int64
		sum  uint64
		werr error
	}
	tdone := make(chan tres, 1)
	go func() {
		tc, err := tl.AcceptTCP()
		if err != nil {
			tdone <- tres{werr: err}
			return
		}
		defer tc.Close()
		var r tres
		wdone := make(chan error, 1)
		go func() { // push everything at once
			for i := 0; i < c.DownMB; i++ {
				if _, err := tc.Write(block); err != nil {
					wdone <- err
					return
				}
			}
			tc.CloseWrite()
			wdone <- nil
		}()
		buf := make([]byte, 256<<10)
		for {
			n, err := tc.Read(buf)
			r.got += int64(n)
			for _, b := range buf[:n] {
				r.sum = r.sum*131 + uint64(b)
			}
			if err != nil {
				break
			}
		}
		r.werr = <-wdone
		tdone <- r
	}()
	cn, err := kit.DialTCP(front.Addr, 3*time.Second)
	if err != nil {
		info.Skipped = err.Error()
		return nil
	}
	defer cn.Close()
	enc := kit.NewStreamEncoder(key, kit.DetBytes(c.Seed+1, key.SaltSize()))
	cn.Write(enc.Chunk(kit.SocksAddrFor(tl.Addr().String(), false)))
	var wantSum uint64
	upDone := make(chan error, 1)
	go func() { // upload without reading
		for i := 0; i < c.UpMB; i++ {
			for off := 0; off < len(block); off += 16000 {
				if _, err := cn.Write(enc.Chunk(block[off:min(len(block), off+16000)])); err != nil {
					upDone <- err
					return
				}
			}
		}
		cn.CloseWrite()
		upDone <- nil
	}()
	for i := 0; i < c.UpMB; i++ {
		for _, b := range block {
			wantSum = wantSum*131 + uint64(b)
		}
	}
	select {
	case err := <-upDone:
		if err != nil {
			return kit.Violation("relay:upload-failed", "client upload of %d MB failed: %v", c.UpMB, err)
		}
	case <-time.After(20 * time.Second):
		return kit.Violation("relay:directions-coupled", "the client's upload of %d MB stalled for 20 s while the target's %d MB wait unread at the client: the client-to-target direction does not proceed while the other one is blocked (the target reads at full speed)", c.UpMB, c.DownMB)
	}
	// now the client reads
	dec := kit.NewStreamDecoder(key)
	var got int64
	buf := make([]byte, 256<<10)
	cn.SetReadDeadline(time.Now().Add(30 * time.Second))
	for {
		n, err := cn.Read(buf)
		if n > 0 {
			if derr := dec.Feed(buf[:n]); derr != nil {
				return kit.Violation("relay:t2c-corrupt", "the target's stream does not decrypt at the client: %v", derr)
			}
			got += int64(len(dec.Plain))
			for i := 0; i < len(dec.Plain); i++ {
				if dec.Plain[i] != block[(got-int64(len(dec.Plain))+int64(i))%int64(len(block))] {
					return kit.Violation("relay:t2c-corrupt", "byte %d of the target's stream differs at the client", got-int64(len(dec.Plain))+int64(i))
				}
			}
			dec.Plain = dec.Plain[:0]
		}
		if err != nil {
			break
		}
	}
	if got != int64(c.DownMB)<<20 {
		return kit.Violation("relay:t2c-corrupt", "the client received %d of the %d bytes the target sent", got, int64(c.DownMB)<<20)
	}
	select {
	case r := <-tdone:
		if r.got != int64(c.UpMB)<<20 || r.sum != wantSum {
			return kit.Violation("relay:c2t-corrupt", "the target received %d bytes (want %d) or a different content", r.got, int64(c.UpMB)<<20)
		}
	case <-time.After(10 * time.Second):
		return kit.Violation("relay:premature-eof-target", "the target did not see the end of the client's stream")
	}
	info.NonTrivial, info.Steps = true, c.UpMB+c.DownMB
	return nil
}

func TestC02_Duplex(t *testing.T) {
	p := kit.Prop[C02Duplex]{ID: "C02", Name: "Duplex", Quick: 4, Thorough: 200, Gen: genC02Duplex, Run: runC02Duplex}
	p.Execute(t)
}
