package props

// C05 — the proxy never sends traffic to non-public destinations.
//
// Function level: RequirePublicIP against an independent IANA-registry oracle
// (structured rapid generation + an enumeration of the IPv4 space).
// End to end: the default validating dialer (TCP) and the default validator
// (UDP) with sinks bound to every local forbidden address class, and a fake
// DNS for hostnames. Only an observed connection/datagram at a sink is a violation.

import (
	"bytes"
	"context"
	"fmt"
	"net"
	"net/netip"
	"runtime"
	"strings"
	"sync"
	"sync/atomic"
	"testing"
	"time"

	"github.com/Jigsaw-Code/outline-sdk/transport"
	onet "github.com/Jigsaw-Code/outline-ss-server/net"
	"github.com/Jigsaw-Code/outline-ss-server/service"
	"pgregory.net/rapid"
	"verif/harness/kit"
)

// ---------------------------------------------------------------------------
// function level

type C05Addr struct {
	Addr string `json:"addr"`
	Form string `json:"form"` // len4 | len16 | mapped
	Near bool   `json:"near_boundary"`
}

func u128(a netip.Addr) (hi, lo uint64) {
	b := a.As16()
	for i := 0; i < 8; i++ {
		hi = hi<<8 | uint64(b[i])
		lo = lo<<8 | uint64(b[8+i])
	}
	return
}

func from128(hi, lo uint64) netip.Addr {
	var b [16]byte
	for i := 7; i >= 0; i-- {
		b[i] = byte(hi)
		hi >>= 8
		b[8+i] = byte(lo)
		lo >>= 8
	}
	return netip.AddrFrom16(b)
}

func addDelta(a netip.Addr, d int64) netip.Addr {
	if a.Is4() {
		b := a.As4()
		v := uint32(b[0])<<24 | uint32(b[1])<<16 | uint32(b[2])<<8 | uint32(b[3])
		v += uint32(d)
		return netip.AddrFrom4([4]byte{byte(v >> 24), byte(v >> 16), byte(v >> 8), byte(v)})
	}
	hi, lo := u128(a)
	nlo := lo + uint64(d)
	if d >= 0 && nlo < lo {
		hi++
	} else if d < 0 && nlo > lo {
		hi--
	}
	return from128(hi, nlo)
}

func lastOf(p netip.Prefix) netip.Addr {
	a := p.Masked().Addr()
	if a.Is4() {
		return addDelta(a, int64(uint64(1)<<(32-p.Bits()))-1)
	}
	hi, lo := u128(a)
	hostBits := 128 - p.Bits()
	if hostBits >= 64 {
		lo = ^uint64(0)
		if hostBits > 64 {
			hi |= (uint64(1) << (hostBits - 64)) - 1
		}
	} else {
		lo |= (uint64(1) << hostBits) - 1
	}
	return from128(hi, lo)
}

var c05Blocks = func() []netip.Prefix {
	var out []netip.Prefix
	out = append(out, kit.RejectV4...)
	out = append(out, kit.OtherSpecialV4...)
	out = append(out, kit.RejectV6...)
	out = append(out, kit.OtherSpecialV6...)
	out = append(out, kit.GlobalV6, netip.MustParsePrefix("::ffff:0:0/96"), netip.MustParsePrefix("0.0.0.0/0"))
	return out
}()

func genC05Addr(t *rapid.T) C05Addr {
	var a netip.Addr
	near := false
	switch rapid.IntRange(0, 3).Draw(t, "mode") {
	case 0: // near a block boundary
		p := rapid.SampledFrom(c05Blocks).Draw(t, "block")
		d := int64(rapid.IntRange(-3, 3).Draw(t, "delta"))
		if rapid.Bool().Draw(t, "atEnd") {
			a = addDelta(lastOf(p), d)
		} else {
			a = addDelta(p.Masked().Addr(), d)
		}
		near = true
	case 1: // inside a block
		p := rapid.SampledFrom(c05Blocks).Draw(t, "block")
		if p.Addr().Is4() {
			span := uint64(1) << (32 - p.Bits())
			a = addDelta(p.Masked().Addr(), int64(rapid.Uint64Range(0, span-1).Draw(t, "off")))
		} else {
			hi, lo := u128(p.Masked().Addr())
			rh, rl := rapid.Uint64().Draw(t, "rh"), rapid.Uint64().Draw(t, "rl")
			hb := 128 - p.Bits()
			var mh, ml uint64
			if hb >= 64 {
				ml = ^uint64(0)
				if hb > 64 {
					mh = (uint64(1) << (hb - 64)) - 1
				}
			} else {
				ml = (uint64(1) << hb) - 1
			}
			a = from128(hi|rh&mh, lo|rl&ml)
		}
	case 2:
		v := rapid.Uint32().Draw(t, "v4")
		a = netip.AddrFrom4([4]byte{byte(v >> 24), byte(v >> 16), byte(v >> 8), byte(v)})
	default:
		a = from128(rapid.Uint64().Draw(t, "hi"), rapid.Uint64().Draw(t, "lo"))
	}
	form := "len16"
	if a.Is4() {
		form = rapid.SampledFrom([]string{"len4", "len16", "mapped"}).Draw(t, "form")
	}
	return C05Addr{Addr: a.String(), Form: form, Near: near}
}

func (c C05Addr) netIP() net.IP {
	a := netip.MustParseAddr(c.Addr)
	if a.Is4In6() {
		b := a.As16()
		return net.IP(b[:])
	}
	if a.Is4() {
		b := a.As4()
		switch c.Form {
		case "len4":
			return net.IP(b[:])
		default: // len16 / mapped: the 16-byte v4-in-v6 form
			return net.IPv4(b[0], b[1], b[2], b[3])
		}
	}
	b := a.As16()
	return net.IP(b[:])
}

func runC05Func(c C05Addr, info *kit.Info) *kit.Finding {
	a := netip.MustParseAddr(c.Addr)
	class := kit.Classify(a)
	err := onet.RequirePublicIP(c.netIP())
	info.NonTrivial = c.Near || c.Form != "len4" && a.Is4() || a.Is4In6()
	info.Class(fmt.Sprintf("class:%d", class), "form:"+c.Form)
	switch class {
	case kit.MustReject:
		if err == nil {
			return kit.Violation("validator:accepts-forbidden", "RequirePublicIP(%s as %s) = nil, but the address is in a block the policy must reject", c.Addr, c.Form)
		}
	case kit.MustAccept:
		if err != nil {
			return kit.Violation("validator:rejects-public", "RequirePublicIP(%s as %s) = %v, but the address is outside every special-purpose block", c.Addr, c.Form, err)
		}
	}
	return nil
}

func TestC05_Func(t *testing.T) {
	p := kit.Prop[C05Addr]{ID: "C05", Name: "Func", Quick: 1000000, Thorough: 40000000, Gen: genC05Addr, Run: runC05Func}
	p.Execute(t)
}

// TestC05_Sweep enumerates IPv4: every address in the thorough tier (exhaustive), every
// block boundary +-300 plus a stride in the quick tier. Both the 4-byte and the 16-byte form.
func TestC05_Sweep(t *testing.T) {
	if kit.Tier() == "quick" && false {
		t.Skip()
	}
	rec := kit.NewRecorder("C05", "Sweep")
	failed := false
	defer func() { rec.Flush(failed) }()
	sh, shards := kit.Shard()
	ranges := kit.V4Ranges()
	evals, nt := 0, 0
	check := func(v uint32, cl kit.AddrClass) bool {
		for _, ip := range []net.IP{{byte(v >> 24), byte(v >> 16), byte(v >> 8), byte(v)}, net.IPv4(byte(v>>24), byte(v>>16), byte(v>>8), byte(v))} {
			err := onet.RequirePublicIP(ip)
			if cl == kit.MustReject && err == nil || cl == kit.MustAccept && err != nil {
				c := C05Addr{Addr: netip.AddrFrom4([4]byte{byte(v >> 24), byte(v >> 16), byte(v >> 8), byte(v)}).String(), Form: map[int]string{4: "len4", 16: "len16"}[len(ip)]}
				f := runC05Func(c, &kit.Info{})
				kit.WriteFail("C05", "Func", c, f)
				// the fail file is attributed to the Func test so that --replay re-runs it
				failed = true
				t.Errorf("%v", f)
				return false
			}
		}
		evals += 2
		return true
	}
	if kit.Tier() == "thorough" {
		for _, r := range ranges {
			for v := uint64(r.Lo); v <= uint64(r.Hi); v++ {
				if int(v>>24)%shards != sh {
					v |= 0xFFFFFF // skip to the end of this /8
					continue
				}
				if !check(uint32(v), r.Class) {
					return
				}
				if r.Class == kit.MustReject {
					nt += 2
				}
			}
		}
		rec.SetExtra("exhaustive", true)
		rec.SetExtra("exhaustive_subdomain", "all 2^32 IPv4 addresses, 4-byte and 16-byte forms, against RequirePublicIP")
	} else {
		for i, r := range ranges {
			if i%shards != sh {
				continue
			}
			for _, base := range []uint64{uint64(r.Lo), uint64(r.Hi)} {
				for d := int64(-300); d <= 300; d++ {
					v := int64(base) + d
					if v < int64(r.Lo) || v > int64(r.Hi) {
						continue
					}
					if !check(uint32(v), r.Class) {
						return
					}
					nt += 2
				}
			}
			for v := uint64(r.Lo); v <= uint64(r.Hi); v += 4099 {
				if !check(uint32(v), r.Class) {
					return
				}
				if r.Class == kit.MustReject {
					nt += 2
				}
			}
		}
	}
	rec.Bulk(evals, nt, map[string]any{"enumeration": "IPv4 ranges by class", "ranges": len(ranges), "first_ranges": ranges[:min(6, len(ranges))]})
}

// ---------------------------------------------------------------------------
// end to end

var c05Once sync.Once
var c05Local struct {
	control   string   // local address the default policy allows (192.0.2.2) or ""
	forbidden []string // local addresses in must-reject classes that can be bound
	zoned     string
}

func c05Detect() {
	c05Once.Do(func() {
		kit.InstallFakeDNS()
		ifs, _ := net.InterfaceAddrs()
		for _, a := range ifs {
			ipn, ok := a.(*net.IPNet)
			if !ok {
				continue
			}
			ip, _ := netip.AddrFromSlice(ipn.IP)
			ip = ip.Unmap()
			if ip.IsLinkLocalUnicast() {
				continue
			}
			if onet.RequirePublicIP(net.IP(ip.AsSlice())) == nil && kit.Classify(ip) != kit.MustReject && kit.HaveAddr(ip.String()) {
				if c05Local.control == "" {
					c05Local.control = ip.String()
				}
			} else if kit.Classify(ip) == kit.MustReject && kit.HaveAddr(ip.String()) {
				c05Local.forbidden = append(c05Local.forbidden, ip.String())
			}
		}
		if kit.HaveAddr("127.1.2.3") {
			c05Local.forbidden = append(c05Local.forbidden, "127.1.2.3")
		}
		c05Local.zoned = kit.LinkLocalZoned()
	})
}

type C05Dest struct {
	Kind    string   `json:"kind"`    // ip | ipdomain | host | empty | remote
	Addr    string   `json:"addr"`    // literal for ip/ipdomain/remote
	Answers []string `json:"answers"` // for host
}

type C05E2E struct {
	Dest   C05Dest `json:"dest"`
	Pos    int     `json:"pos"` // UDP: number of allowed datagrams before the forbidden one
	Cipher string  `json:"cipher"`
	Seed   int64   `json:"seed"`
}

// Non-local forbidden literals: on the unchanged tree they are refused before any packet leaves.
var c05Remote = []string{"10.0.0.1", "10.255.255.254", "172.16.0.1", "172.31.255.254", "192.168.0.1", "192.168.255.254", "100.64.0.1", "100.127.255.254",
	"169.254.1.1", "224.0.0.1", "239.255.255.255", "255.255.255.255", "fc00::1", "fdff::1", "ff02::1", "fe80::1", "::ffff:10.0.0.1", "::ffff:192.168.1.1", "::ffff:100.64.0.1", "::ffff:169.254.0.1"}

func genC05E2E(t *rapid.T) C05E2E {
	c05Detect()
	local := append([]string{"0.0.0.0", "::", "::ffff:127.0.0.1"}, c05Local.forbidden...)
	c := C05E2E{Cipher: rapid.SampledFrom(kit.AllCiphers).Draw(t, "cipher"), Seed: rapid.Int64Range(1, 1<<40).Draw(t, "seed"), Pos: rapid.IntRange(0, 6).Draw(t, "pos")}
	kind := rapid.SampledFrom([]string{"ip", "ip", "ipdomain", "host", "host", "empty", "remote", "control"}).Draw(t, "kind")
	switch kind {
	case "ip", "ipdomain":
		c.Dest = C05Dest{Kind: kind, Addr: rapid.SampledFrom(local).Draw(t, "addr")}
		if kind == "ipdomain" && c05Local.zoned != "" && rapid.IntRange(0, 4).Draw(t, "zoned") == 0 {
			c.Dest.Addr = c05Local.zoned
		}
	case "remote":
		c.Dest = C05Dest{Kind: rapid.SampledFrom([]string{"ip", "ipdomain"}).Draw(t, "rkind"), Addr: rapid.SampledFrom(c05Remote).Draw(t, "addr")}
	case "empty":
		c.Dest = C05Dest{Kind: "empty"}
	case "control":
		c.Dest = C05Dest{Kind: rapid.SampledFrom([]string{"ip", "ipdomain", "host"}).Draw(t, "ckind"), Addr: c05Local.control, Answers: []string{c05Local.control}}
		if c05Local.control == "" {
			c.Dest = C05Dest{Kind: "ip", Addr: "127.0.0.1"}
		}
	default:
		pool := append([]string(nil), local[2:]...) // no unspecified addresses in DNS answers? keep them too:
		pool = append(pool, "0.0.0.0", "::")
		if c05Local.control != "" {
			pool = append(pool, c05Local.control, c05Local.control)
		}
		c.Dest = C05Dest{Kind: "host", Answers: rapid.SliceOfN(rapid.SampledFrom(pool), 0, 4).Draw(t, "answers")}
	}
	return c
}

func (d C05Dest) socks(port int, tag string) []byte {
	switch d.Kind {
	case "ip":
		return kit.SocksAddr(d.Addr, port, false)
	case "ipdomain":
		return kit.SocksAddr(d.Addr, port, true)
	case "empty":
		return kit.SocksAddr("", port, true)
	default:
		return kit.SocksAddr(kit.DNSName(tag, d.Answers...), port, true)
	}
}

// candidates: the addresses the name denotes.
func (d C05Dest) candidates() []string {
	switch d.Kind {
	case "host":
		return d.Answers
	case "empty":
		return nil
	}
	return []string{d.Addr}
}

type sinkSet struct {
	port int
	tcp  []*kit.TCPTarget
	udp  []*kit.UDPPeer
	addr []string
}

func (s *sinkSet) close() {
	for _, t := range s.tcp {
		t.Close()
	}
	for _, u := range s.udp {
		u.Close()
	}
}

// newSinks binds a TCP listener and a UDP socket on one common port on the control address and on
// every local forbidden address.
func newSinks() (*sinkSet, string) {
	c05Detect()
	for attempt := 0; attempt < 20; attempt++ {
		s := &sinkSet{}
		first := c05Local.control
		if first == "" {
			first = "127.0.0.1"
		}
		t0, err := kit.NewTCPTarget(first)
		if err != nil {
			return nil, err.Error()
		}
		s.port = t0.Port()
		t0.Close()
		ok := true
		addrs := append([]string{}, c05Local.forbidden...)
		if c05Local.control != "" {
			addrs = append([]string{c05Local.control}, addrs...)
		}
		if c05Local.zoned != "" {
			addrs = append(addrs, c05Local.zoned)
		}
		for _, a := range addrs {
			var ta *net.TCPAddr
			if i := strings.IndexByte(a, '%'); i >= 0 {
				ta = &net.TCPAddr{IP: net.ParseIP(a[:i]), Zone: a[i+1:], Port: s.port}
			} else {
				ta = &net.TCPAddr{IP: net.ParseIP(a), Port: s.port}
			}
			l, err := net.ListenTCP("tcp", ta)
			if err != nil {
				ok = false
				break
			}
			l.Close()
			tt, err1 := newTCPTargetAt(ta)
			uu, err2 := kit.NewUDPPeer(a, s.port)
			if err1 != nil || err2 != nil {
				if tt != nil {
					tt.Close()
				}
				if uu != nil {
					uu.Close()
				}
				ok = false
				break
			}
			s.tcp, s.udp, s.addr = append(s.tcp, tt), append(s.udp, uu), append(s.addr, a)
		}
		if ok {
			return s, ""
		}
		s.close()
	}
	return nil, "could not bind a common sink port"
}

func newTCPTargetAt(a *net.TCPAddr) (*kit.TCPTarget, error) {
	// kit.NewTCPTarget binds port 0; re-implement for a fixed port
	return kit.NewTCPTargetAddr(a)
}

func runC05TCP(c C05E2E, info *kit.Info) *kit.Finding {
	sinks, why := newSinks()
	if sinks == nil {
		info.Skipped = why
		return nil
	}
	key := kit.KeySpec{ID: "u", Cipher: c.Cipher, Secret: "s3cret"}
	h := service.NewStreamHandler(service.NewShadowsocksStreamAuthenticator(kit.NewCipherList([]kit.KeySpec{key}), nil, nil, nil), 3*time.Second)
	// default dialer: the policy under test
	rec := kit.NewRecTCPConn()
	front, err := kit.ServeTCP("127.0.0.1", func(ctx context.Context, conn transport.StreamConn) {
		ctx2, cancel := context.WithTimeout(ctx, 2*time.Second)
		defer cancel()
		h.Handle(ctx2, conn, rec)
	})
	if err != nil {
		sinks.close()
		info.Skipped = err.Error()
		return nil
	}
	cl, err := kit.DialTCP(front.Addr, 5*time.Second)
	if err != nil {
		sinks.close()
		front.Close(time.Second)
		if kit.EnvNetError(err) {
			info.Skipped = "host out of ports: " + err.Error()
			return nil
		}
		return kit.Violation("policy:dial-refused", "cannot connect to proxy: %v", err)
	}
	defer func() {
		cl.Close()
		sinks.close()
		front.Close(3 * time.Second)
	}()
	k := key.Key()
	plain := append(c.Dest.socks(sinks.port, fmt.Sprintf("t%d", c.Seed)), []byte("hello")...)
	cl.Write(kit.EncodeStream(k, kit.DetBytes(c.Seed, k.SaltSize()), plain, nil))

	cands := c.Dest.candidates()
	allowed := false
	allForbidden := len(cands) > 0
	for _, a := range cands {
		if a == c05Local.control && a != "" {
			allowed = true
		}
		ip, err := netip.ParseAddr(a)
		if err != nil || kit.Classify(ip) != kit.MustReject {
			allForbidden = false
		}
	}
	info.Class("dest:"+c.Dest.Kind, fmt.Sprintf("allowed:%v", allowed))
	if c.Dest.Kind == "host" && len(c.Dest.Answers) >= 2 || strings.Contains(c.Dest.Addr, "ffff") || strings.Contains(c.Dest.Addr, "%") || c.Dest.Kind == "empty" {
		info.NonTrivial = true
	}
	if c.Dest.Kind == "ipdomain" {
		info.NonTrivial = true
	}
	if !allowed {
		select {
		case <-rec.Done():
		case <-time.After(6 * time.Second):
			return kit.Violation("policy:not-refused-quickly", "connection for destination %+v neither refused nor closed within 6 s", c.Dest)
		}
	}
	if allowed {
		// let the control connection arrive
		kit.WaitFor(2*time.Second, func() bool { return sinks.tcp[0].Accepted() > 0 })
	}
	time.Sleep(500 * time.Microsecond)
	for i, s := range sinks.tcp {
		n := s.Accepted()
		if sinks.addr[i] == c05Local.control && c05Local.control != "" {
			if allowed && n == 0 {
				// positive control. A hostname whose first-tried answers are refused must still reach the allowed one.
				return kit.Violation("policy:control-not-reached", "destination %+v includes the allowed local address %s but no connection reached it (status %v)", c.Dest, c05Local.control, statusOf(rec))
			}
			if !allowed && n > 0 {
				return kit.Violation("policy:unexpected-control", "a connection reached %s although the destination %+v does not denote it", c05Local.control, c.Dest)
			}
			continue
		}
		if n > 0 {
			return kit.Violation("policy:tcp-to-forbidden", "the proxy opened a TCP connection to forbidden local address %s for destination %+v", sinks.addr[i], c.Dest)
		}
	}
	if !allowed {
		st := statusOf(rec)
		literal := (c.Dest.Kind == "ip" || c.Dest.Kind == "ipdomain") && !strings.Contains(c.Dest.Addr, "%")
		if literal && allForbidden && st != "ERR_ADDRESS_INVALID" && st != "ERR_ADDRESS_PRIVATE" {
			return kit.Violation("policy:wrong-status", "destination %+v (all candidates forbidden) closed with status %q, want ERR_ADDRESS_INVALID or ERR_ADDRESS_PRIVATE", c.Dest, st)
		}
		if st == "OK" {
			return kit.Violation("policy:wrong-status", "destination %+v closed with status OK", c.Dest)
		}
	}
	return nil
}

func statusOf(r *kit.RecTCPConn) string {
	if e, ok := r.Closed(); ok {
		return e.Status
	}
	return "<not closed>"
}

func TestC05_TCP(t *testing.T) {
	p := kit.Prop[C05E2E]{ID: "C05", Name: "TCP", Quick: 6000, Thorough: 600000, Gen: genC05E2E, Run: runC05TCP}
	p.Execute(t)
}

func runC05UDP(c C05E2E, info *kit.Info) *kit.Finding {
	sinks, why := newSinks()
	if sinks == nil {
		info.Skipped = why
		return nil
	}
	defer sinks.close()
	key := kit.KeySpec{ID: "u", Cipher: c.Cipher, Secret: "s3cret"}
	met := &kit.RecService{}
	ssm := &kit.RecSSMetrics{}
	ph := service.NewPacketHandler(time.Minute, kit.NewCipherList([]kit.KeySpec{key}), met, ssm) // default validator = the policy under test
	front, err := kit.ServeUDP("127.0.0.1", ph)
	if err != nil {
		info.Skipped = err.Error()
		return nil
	}
	defer front.Close(3 * time.Second)
	cl, err := kit.NewUDPPeer("127.0.0.1", 0)
	if err != nil {
		info.Skipped = err.Error()
		return nil
	}
	defer cl.Close()
	k := key.Key()
	searches := 0
	send := func(addr []byte, body string, seed int64) {
		cl.Send(kit.PackUDP(k, kit.DetBytes(seed, k.SaltSize()), append(addr, body...)), front.Addr)
		searches++
	}
	// fence: a garbage datagram is processed strictly after everything before it
	fence := func() bool {
		cl.Send([]byte("garbage-garbage-garbage-garbage-garbage-garbage-garbage-garbage"), front.Addr)
		searches++
		want := searches
		return kit.WaitFor(3*time.Second, func() bool { ssm.Lock(); defer ssm.Unlock(); return len(ssm.Found) >= want })
	}
	pos := c.Pos
	if c05Local.control == "" {
		pos = 0
	}
	ctl := sinks.udp[0]
	for i := 0; i < pos; i++ {
		send(kit.SocksAddr(c05Local.control, sinks.port, false), fmt.Sprintf("ok-%d", i), c.Seed+int64(i)+100)
		if d, ok := ctl.Pop(3 * time.Second); !ok || string(d.Data) != fmt.Sprintf("ok-%d", i) {
			return kit.Violation("policy:control-not-reached", "allowed datagram %d to %s did not arrive", i, c05Local.control)
		}
	}
	cands := c.Dest.candidates()
	// net.ResolveUDPAddr picks the first IPv4 answer if any, else the first answer
	var chosen string
	for _, a := range cands {
		if ip, err := netip.ParseAddr(strings.SplitN(a, "%", 2)[0]); err == nil && ip.Is4() {
			chosen = a
			break
		}
	}
	if chosen == "" && len(cands) > 0 {
		chosen = cands[0]
	}
	allowed := chosen != "" && chosen == c05Local.control
	mayReachControl := false
	for _, a := range cands {
		mayReachControl = mayReachControl || a == c05Local.control
	}
	if c.Dest.Kind == "host" && len(cands) > 1 {
		allowed = false // which answer the resolver picks is not modelled: the control arrival is optional
	}
	send(c.Dest.socks(sinks.port, fmt.Sprintf("u%d", c.Seed)), "probe", c.Seed)
	if !fence() {
		return kit.Violation("policy:loop-stopped", "the packet loop stopped processing datagrams after destination %+v", c.Dest)
	}
	if allowed {
		// the fence says the server has sent it; give the sink's reader goroutine time to pick it up
		kit.WaitFor(3*time.Second, func() bool { return ctl.Queued() > 0 })
	}
	time.Sleep(500 * time.Microsecond)
	info.Class("dest:"+c.Dest.Kind, fmt.Sprintf("pos:%d", pos), fmt.Sprintf("allowed:%v", allowed))
	info.NonTrivial = pos >= 1 || c.Dest.Kind == "host" && len(c.Dest.Answers) >= 2 || strings.Contains(c.Dest.Addr, "ffff") || c.Dest.Kind == "ipdomain" || c.Dest.Kind == "empty"
	for i, s := range sinks.udp {
		q := s.Drain()
		if sinks.addr[i] == c05Local.control && c05Local.control != "" {
			// A hostname with several answers may legitimately resolve to the control address:
			// arrivals there are only required when the model says so and are never a violation.
			if allowed && len(q) == 0 {
				return kit.Violation("policy:control-not-reached", "destination %+v resolves to allowed %s but nothing arrived", c.Dest, chosen)
			}
			continue
		}
		if len(q) > 0 {
			return kit.Violation("policy:udp-to-forbidden", "the proxy sent %d datagram(s) to forbidden local address %s for destination %+v (position %d of the association)", len(q), sinks.addr[i], c.Dest, pos+1)
		}
	}
	as := met.UDPAssocs()
	if pos == 0 && !mayReachControl && len(as) > 0 {
		return kit.Violation("policy:assoc-for-forbidden", "an association was created by a first datagram to destination %+v", c.Dest)
	}
	if pos > 0 && !mayReachControl {
		evs := as[0].Events()
		if len(evs) <= pos {
			return kit.Violation("policy:unreported", "forbidden datagram on a live association was not reported (events %+v)", evs)
		}
		last := evs[pos] // events 0..pos-1 are the allowed datagrams, then the probe, then the fence
		ip, perr := netip.ParseAddr(strings.SplitN(chosen, "%", 2)[0])
		if perr == nil && kit.Classify(ip) == kit.MustReject && c.Dest.Kind != "ipdomain" || c.Dest.Kind == "ipdomain" && !strings.Contains(c.Dest.Addr, "%") && perr == nil && kit.Classify(ip) == kit.MustReject {
			if last.Kind != "fromClient" || last.Status != "ERR_ADDRESS_INVALID" && last.Status != "ERR_ADDRESS_PRIVATE" {
				return kit.Violation("policy:wrong-status", "forbidden datagram on a live association reported as %+v, want ERR_ADDRESS_INVALID/PRIVATE", last)
			}
		}
	}
	return nil
}

func TestC05_UDP(t *testing.T) {
	p := kit.Prop[C05E2E]{ID: "C05", Name: "UDP", Quick: 6000, Thorough: 600000, Gen: genC05E2E, Run: runC05UDP}
	p.Execute(t)
}

// ---- one handler, several sockets --------------------------------------------------------------
// A service's packet handler serves all of its UDP listeners at once (one Handle loop per socket). The
// destination policy must hold for every datagram of every loop, whatever the other loops are doing:
// a refused destination never receives anything, an allowed one only what was sent to it.

type C05Shared struct {
	Cipher    string `json:"cipher"`
	Listeners int    `json:"listeners"`
	PerClient int    `json:"per_client"`
	V6        bool   `json:"v6_allowed_target"`
	Seed      int64  `json:"seed"`
}

func genC05Shared(t *rapid.T) C05Shared {
	return C05Shared{Cipher: rapid.SampledFrom(kit.AllCiphers).Draw(t, "cipher"), Listeners: rapid.IntRange(2, 4).Draw(t, "listeners"),
		PerClient: rapid.IntRange(200, 3000).Draw(t, "per"), V6: rapid.Bool().Draw(t, "v6"), Seed: rapid.Int64Range(1, 1<<40).Draw(t, "seed")}
}

func runC05Shared(c C05Shared, info *kit.Info) *kit.Finding {
	ks := kit.KeySpec{ID: "user", Cipher: c.Cipher, Secret: "shared-handler"}
	key := ks.Key()
	ph := service.NewPacketHandler(30*time.Second, kit.NewCipherList([]kit.KeySpec{ks}), &kit.RecService{}, nil)
	ph.SetTargetIPValidator(permitAllBut66)
	allowedIP := "127.0.0.1"
	if c.V6 && kit.HaveAddr("::1") {
		allowedIP = "::1"
	}
	allowed, err := kit.NewUDPPeer(allowedIP, 0)
	if err != nil {
		info.Skipped = err.Error()
		return nil
	}
	defer allowed.Close()
	// the refused destination listens on the same port as the allowed one where it can, so that an address
	// assembled from two datagrams' parts is also a live socket
	refused, err := kit.NewUDPPeer(forbiddenTargetIP, allowed.Addr.Port)
	if err != nil {
		if refused, err = kit.NewUDPPeer(forbiddenTargetIP, 0); err != nil {
			info.Skipped = err.Error()
			return nil
		}
	}
	defer refused.Close()
	var fronts []*kit.UDPFront
	var clients []*kit.UDPPeer
	defer func() {
		for _, cl := range clients {
			cl.Close()
		}
		for _, f := range fronts {
			f.Close(2 * time.Second)
		}
	}()
	for i := 0; i < c.Listeners; i++ {
		f, err := kit.ServeUDP("127.0.0.1", ph)
		if err != nil {
			info.Skipped = err.Error()
			return nil
		}
		fronts = append(fronts, f)
		cl, err := kit.NewUDPPeer("127.0.0.1", 0)
		if err != nil {
			info.Skipped = err.Error()
			return nil
		}
		clients = append(clients, cl)
	}
	var wg sync.WaitGroup
	for i := range fronts {
		wg.Add(1)
		go func(i int) {
			defer wg.Done()
			tgt, tag := allowed, "ALLOWED"
			if i%2 == 1 {
				tgt, tag = refused, "REFUSED"
			}
			addr := kit.SocksAddr(tgt.Addr.IP.String(), tgt.Addr.Port, false)
			to := &net.UDPAddr{IP: net.IPv4(127, 0, 0, 1), Port: fronts[i].Addr.Port}
			for n := 0; n < c.PerClient; n++ {
				plain := append(append([]byte(nil), addr...), []byte(fmt.Sprintf("%s-%d-%d", tag, i, n))...)
				clients[i].Send(kit.PackUDP(key, kit.DetBytes(c.Seed+int64(i)*1_000_003+int64(n), key.SaltSize()), plain), to)
				if n%16 == 15 {
					time.Sleep(150 * time.Microsecond)
				}
			}
		}(i)
	}
	wg.Wait()
	// let the loops drain what is queued
	last := -1
	kit.WaitFor(2*time.Second, func() bool {
		q := allowed.Queued()
		quiet := q == last
		last = q
		time.Sleep(20 * time.Millisecond)
		return quiet
	})
	got := allowed.Drain()
	info.Steps = c.Listeners * c.PerClient
	if len(got) > 0 {
		info.NonTrivial = true
	}
	if bad := refused.Drain(); len(bad) > 0 {
		return kit.Violation("policy:shared-handler-leak", "%d datagrams reached %v, a destination the policy refuses (first: %q from %v); %d listeners share one packet handler and only odd-numbered clients named that destination, which must be refused on every listener", len(bad), refused.Addr, bad[0].Data, bad[0].From, c.Listeners)
	}
	for _, d := range got {
		if !bytes.HasPrefix(d.Data, []byte("ALLOWED-")) {
			return kit.Violation("policy:shared-handler-misroute", "the allowed destination %v received %q, which no client sent to it", allowed.Addr, d.Data)
		}
	}
	return nil
}

func TestC05_Shared(t *testing.T) {
	p := kit.Prop[C05Shared]{ID: "C05", Name: "Shared", Quick: 40, Thorough: 3000, Gen: genC05Shared, Run: runC05Shared}
	p.Execute(t)
}

// ---- the first validations of a process ---------------------------------------------------------------
// The very first destination checks of a process, made by several goroutines at the same instant (connections
// arrive on several listeners as soon as the server is up): every forbidden address is refused from the start.
// Run as a unit of its own (nothing in the process has used the validator before), also under the race detector.

type C05First struct {
	Workers int   `json:"workers"`
	Seed    int64 `json:"seed"`
}

func TestC05_FirstUse(t *testing.T) {
	var once sync.Once
	p := kit.Prop[C05First]{ID: "C05", Name: "FirstUse", Quick: 1, Thorough: 1,
		Gen: func(t *rapid.T) C05First {
			return C05First{Workers: rapid.IntRange(4, 16).Draw(t, "workers"), Seed: rapid.Int64Range(1, 1<<40).Draw(t, "seed")}
		},
		Run: func(c C05First, info *kit.Info) *kit.Finding {
			var f *kit.Finding
			once.Do(func() { f = runC05First(c, info) }) // only the first case of a process is a first use
			return f
		}}
	p.Execute(t)
}

func runC05First(c C05First, info *kit.Info) *kit.Finding {
	forbidden := []string{"100.64.0.1", "100.127.255.254", "192.168.255.254", "172.16.0.1", "172.31.255.255", "10.0.0.1", "fd00::1", "fc00::1", "::ffff:192.168.1.1", "::ffff:100.64.0.1"}
	var bad atomic.Pointer[kit.Finding]
	var wg sync.WaitGroup
	var ready atomic.Int32
	start := make(chan struct{})
	for w := 0; w < c.Workers; w++ {
		wg.Add(1)
		go func(w int) {
			defer wg.Done()
			ready.Add(1)
			<-start
			for k := 0; k < len(forbidden); k++ {
				a := forbidden[(k+w+int(c.Seed))%len(forbidden)]
				if err := onet.RequirePublicIP(net.ParseIP(a)); err == nil {
					bad.CompareAndSwap(nil, kit.Violation("validator:accepts-forbidden", "among the first destination checks of the process, made by %d goroutines at once, RequirePublicIP(%s) = nil", c.Workers, a))
				}
			}
		}(w)
	}
	for ready.Load() < int32(c.Workers) {
		runtime.Gosched()
	}
	close(start)
	wg.Wait()
	info.NonTrivial, info.Steps = true, c.Workers*len(forbidden)
	return bad.Load()
}
