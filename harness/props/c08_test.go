package props

// C08 — server-issued salts are fresh, recognisable, and never accepted back.
//
// N relayed connections whose targets answer; the recorded server->client
// bytes are then presented as *client* streams (verbatim, truncated >=50,
// extended), with the replay cache on and off. "Recognised as its own" is
// decided behaviourally by reflection, not by asking the generator.

import (
	"context"
	"fmt"
	"net"
	"sync"
	"sync/atomic"
	"testing"
	"time"

	"github.com/Jigsaw-Code/outline-ss-server/service"
	"pgregory.net/rapid"
	"verif/harness/kit"
)

type C08Conn struct {
	Key     int   `json:"key"`
	Seed    int64 `json:"seed"`
	RespLen int   `json:"resp_len"`
}

type C08Reflect struct {
	Of   int    `json:"of"`
	Mode string `json:"mode"` // verbatim | trunc | extend
	Arg  int    `json:"arg"`
}

type C08Case struct {
	Keys     []kit.KeySpec `json:"keys"`
	CacheN   int           `json:"cache_n"`
	Conns    []C08Conn     `json:"conns"`
	Reflects []C08Reflect  `json:"reflects"`
	// Rebuild: the key list is rebuilt from the same configuration (a reload, a restart, the same key on a second
	// listener) before the recordings are reflected: recognising one's own salts depends on the key's secret alone
	Rebuild bool `json:"rebuild,omitempty"`
}

func genC08(maxConns int) func(t *rapid.T) C08Case {
	return func(t *rapid.T) C08Case {
		c := C08Case{Keys: kit.GenKeyUniverse(t, 1, 8), CacheN: rapid.SampledFrom([]int{0, 0, 10, 1000}).Draw(t, "cache")}
		n := rapid.IntRange(2, maxConns).Draw(t, "nconns")
		for i := 0; i < n; i++ {
			c.Conns = append(c.Conns, C08Conn{Key: rapid.IntRange(0, len(c.Keys)-1).Draw(t, "key"), Seed: rapid.Int64Range(1, 1<<40).Draw(t, "seed"),
				RespLen: rapid.SampledFrom([]int{1, 1, 2, 33, 500, 20000}).Draw(t, "resp")})
		}
		m := rapid.IntRange(1, 12).Draw(t, "nreflects")
		for i := 0; i < m; i++ {
			r := C08Reflect{Of: rapid.IntRange(0, n-1).Draw(t, "of"), Mode: rapid.SampledFrom([]string{"verbatim", "trunc", "extend"}).Draw(t, "mode")}
			r.Arg = rapid.IntRange(50, 120).Draw(t, "arg")
			c.Reflects = append(c.Reflects, r)
		}
		c.Rebuild = rapid.IntRange(0, 2).Draw(t, "rebuild") == 0
		return c
	}
}

func runC08(c C08Case, info *kit.Info) *kit.Finding {
	var cache *service.ReplayCache
	if c.CacheN > 0 {
		rc := service.NewReplayCache(c.CacheN)
		cache = &rc
	}
	dialer := &kit.RecDialer{}
	h := service.NewStreamHandler(service.NewShadowsocksStreamAuthenticator(kit.NewCipherList(c.Keys), cache, nil, nil), time.Second)
	h.SetTargetDialer(dialer)
	salts := map[string]int{}
	outputs := make([][]byte, len(c.Conns))
	ciphers := map[string]bool{}
	for i, cn := range c.Conns {
		info.Steps++
		ks := c.Keys[cn.Key]
		key := ks.Key()
		ciphers[ks.Cipher] = true
		dialer.Response = func(string) ([]byte, error) { return kit.DetBytes(cn.Seed+9, cn.RespLen), nil }
		wire := kit.EncodeStream(key, kit.DetBytes(cn.Seed, key.SaltSize()), append(kit.SocksAddrFor("192.0.2.99:80", false), "req"...), nil)
		conn := kit.NewMemConn(wire, &net.TCPAddr{IP: net.IPv4(203, 0, 113, 9), Port: 2000 + i})
		rec := kit.NewRecTCPConn()
		h.Handle(context.Background(), conn, rec)
		if cl, _ := rec.Closed(); cl.Status != "OK" {
			if cl.Status == "ERR_REPLAY_CLIENT" || cl.Status == "ERR_REPLAY_SERVER" {
				continue // generated seeds collided (same key+seed twice) or the 2^-32 event: not this property's subject
			}
			return kit.Violation("salt:setup", "connection %d under %s did not relay: %s", i, ks.ID, cl.Status)
		}
		out := conn.Output()
		// the stream the server produced must open under the key that matched (first configured id with that material)
		dec := kit.NewStreamDecoder(key)
		if err := dec.Feed(out); err != nil || len(dec.Plain) != cn.RespLen {
			return kit.Violation("salt:response-undecryptable", "connection %d: response does not decrypt under the client's key (%v, %d/%d bytes)", i, err, len(dec.Plain), cn.RespLen)
		}
		outputs[i] = out
		s := string(out[:key.SaltSize()])
		if j, dup := salts[s]; dup {
			return kit.Violation("salt:reused", "connections %d and %d received the same server salt %x", j, i, s)
		}
		salts[s] = i
	}
	if c.Rebuild {
		h = service.NewStreamHandler(service.NewShadowsocksStreamAuthenticator(kit.NewCipherList(c.Keys), cache, nil, nil), time.Second)
		h.SetTargetDialer(dialer)
		info.Class("key-list-rebuilt-before-reflection")
	}
	for ri, r := range c.Reflects {
		info.Steps++
		out := outputs[r.Of]
		if out == nil {
			continue
		}
		ks := c.Keys[c.Conns[r.Of].Key]
		key := ks.Key()
		wire := append([]byte(nil), out...)
		switch r.Mode {
		case "trunc":
			wire = wire[:min(len(wire), r.Arg)]
		case "extend":
			wire = append(wire, kit.DetBytes(int64(ri)+77, r.Arg)...)
		}
		if len(wire) < 50 {
			continue
		}
		conn := kit.NewMemConn(wire, &net.TCPAddr{IP: net.IPv4(198, 51, 100, 3), Port: 3000 + ri})
		rec := kit.NewRecTCPConn()
		before := dialer.NumDials()
		h.Handle(context.Background(), conn, rec)
		cl, _ := rec.Closed()
		info.Class("reflect:"+r.Mode, fmt.Sprintf("salt:%d", key.SaltSize()), fmt.Sprintf("cache:%v", c.CacheN > 0))
		if key.SaltSize() < 20 {
			info.Class("exempt-16-byte-salt")
			continue
		}
		info.NonTrivial = true
		if cl.Status != "ERR_REPLAY_SERVER" {
			return kit.Violation("salt:reflection-accepted", "server output of connection %d (key %s, %s, %d-byte salt) presented back as a client stream (%s, cache=%d) closed with %q, want ERR_REPLAY_SERVER", r.Of, ks.ID, ks.Cipher, key.SaltSize(), r.Mode, c.CacheN, cl.Status)
		}
		if d := dialer.NumDials() - before; d != 0 || len(conn.Output()) != 0 {
			return kit.Violation("salt:reflection-side-effects", "refused reflection caused %d dials, %d bytes written back", d, len(conn.Output()))
		}
		probe := false
		for _, e := range rec.Events() {
			probe = probe || e.Kind == "probe" && e.Status == "ERR_REPLAY_SERVER"
		}
		if !probe {
			return kit.Violation("salt:reflection-not-probe", "refused reflection was not handled like a probe (no probe report)")
		}
	}
	return nil
}

func TestC08_Salts(t *testing.T) {
	maxConns := 40
	if kit.Tier() == "thorough" {
		maxConns = 300
	}
	p := kit.Prop[C08Case]{ID: "C08", Name: "Salts", Quick: 8000, Thorough: 300000, Gen: genC08(maxConns), Run: runC08}
	p.Execute(t)
}

// ---- concurrent variant -------------------------------------------------------------------
// One salt generator serves every connection of a key: responses produced concurrently for one
// key must still start with fresh salts the server recognises. G goroutines relay connections
// under the same few keys at once; afterwards every recorded server stream is reflected.
// A panic inside a handler goroutine of the harness would kill the process: the case is journalled.

type C08Conc struct {
	Keys    []kit.KeySpec `json:"keys"`
	Workers int           `json:"workers"`
	PerW    int           `json:"per_worker"`
	Seed    int64         `json:"seed"`
}

func genC08Conc(t *rapid.T) C08Conc {
	return C08Conc{Keys: kit.GenKeyUniverse(t, 1, 3), Workers: rapid.IntRange(2, 16).Draw(t, "workers"), PerW: rapid.IntRange(20, 300).Draw(t, "perw"), Seed: rapid.Int64Range(1, 1<<40).Draw(t, "seed")}
}

func runC08Conc(c C08Conc, info *kit.Info) *kit.Finding {
	dialer := &kit.RecDialer{Response: func(string) ([]byte, error) { return []byte("r"), nil }}
	h := service.NewStreamHandler(service.NewShadowsocksStreamAuthenticator(kit.NewCipherList(c.Keys), nil, nil, nil), time.Second)
	h.SetTargetDialer(dialer)
	type out struct {
		key  int
		wire []byte
	}
	outs := make([][]out, c.Workers)
	var wg sync.WaitGroup
	var fnd atomic.Pointer[kit.Finding]
	start := make(chan struct{})
	for w := 0; w < c.Workers; w++ {
		wg.Add(1)
		go func(w int) {
			defer wg.Done()
			<-start
			for i := 0; i < c.PerW; i++ {
				ki := (w + i) % len(c.Keys)
				key := c.Keys[ki].Key()
				wire := kit.EncodeStream(key, kit.DetBytes(c.Seed+int64(w*100000+i), key.SaltSize()), append(kit.SocksAddrFor("192.0.2.99:80", false), "q"...), nil)
				conn := kit.NewMemConn(wire, &net.TCPAddr{IP: net.IPv4(203, 0, 113, byte(w)), Port: 2000 + i})
				rec := kit.NewRecTCPConn()
				h.Handle(context.Background(), conn, rec)
				if cl, _ := rec.Closed(); cl.Status != "OK" {
					if cl.Status != "ERR_REPLAY_SERVER" { // the 2^-32 event
						fnd.CompareAndSwap(nil, kit.Violation("salt:setup", "concurrent relay under %s closed with %s", c.Keys[ki].ID, cl.Status))
					}
					continue
				}
				outs[w] = append(outs[w], out{ki, conn.Output()})
			}
		}(w)
	}
	close(start)
	wg.Wait()
	if f := fnd.Load(); f != nil {
		return f
	}
	seen := map[string]bool{}
	n := 0
	for _, os := range outs {
		for _, o := range os {
			ks := c.Keys[o.key]
			key := ks.Key()
			if len(o.wire) < key.SaltSize() {
				return kit.Violation("salt:response-undecryptable", "response shorter than a salt")
			}
			dec := kit.NewStreamDecoder(key)
			if err := dec.Feed(o.wire); err != nil || string(dec.Plain) != "r" {
				return kit.Violation("salt:response-undecryptable", "a response produced concurrently under %s does not decrypt under that key (%v)", ks.ID, err)
			}
			s := string(o.wire[:key.SaltSize()])
			if seen[s] {
				return kit.Violation("salt:reused", "two concurrent connections received the same server salt %x", s)
			}
			seen[s] = true
			if key.SaltSize() < 20 {
				continue
			}
			n++
			conn := kit.NewMemConn(o.wire, &net.TCPAddr{IP: net.IPv4(198, 51, 100, 3), Port: 3000})
			rec := kit.NewRecTCPConn()
			h.Handle(context.Background(), conn, rec)
			if cl, _ := rec.Closed(); cl.Status != "ERR_REPLAY_SERVER" {
				return kit.Violation("salt:reflection-accepted", "a server stream produced while %d goroutines used key %s concurrently was presented back and closed with %q, want ERR_REPLAY_SERVER: the server did not recognise its own salt", c.Workers, ks.ID, cl.Status)
			}
		}
	}
	info.NonTrivial = n > 0
	info.Steps = c.Workers * c.PerW
	return nil
}

func TestC08_Concurrent(t *testing.T) {
	p := kit.Prop[C08Conc]{ID: "C08", Name: "Concurrent", Quick: 60, Thorough: 4000, Gen: genC08Conc, Run: runC08Conc, Journal: true}
	p.Execute(t)
}

// ---- a long run under few keys -------------------------------------------------------------------
// Freshness over many connections of one process: thousands of response salts for one or two keys, all
// pairwise distinct and all recognisable (whatever pooling or caching of randomness a server may do, the
// N-th salt must not repeat an earlier one).

type C08Long struct {
	Keys  []kit.KeySpec `json:"keys"`
	Conns int           `json:"conns"`
	Seed  int64         `json:"seed"`
}

func genC08Long(t *rapid.T) C08Long {
	return C08Long{Keys: kit.GenKeyUniverse(t, 1, 2), Conns: rapid.IntRange(3000, 9000).Draw(t, "conns"), Seed: rapid.Int64Range(1, 1<<40).Draw(t, "seed")}
}

func runC08Long(c C08Long, info *kit.Info) *kit.Finding {
	dialer := &kit.RecDialer{Response: func(string) ([]byte, error) { return []byte("r"), nil }}
	h := service.NewStreamHandler(service.NewShadowsocksStreamAuthenticator(kit.NewCipherList(c.Keys), nil, nil, nil), time.Second)
	h.SetTargetDialer(dialer)
	seen := map[string]int{}
	req := append(kit.SocksAddrFor("192.0.2.99:80", false), "req"...)
	for i := 0; i < c.Conns; i++ {
		ks := c.Keys[i%len(c.Keys)]
		key := ks.Key()
		conn := kit.NewMemConn(kit.EncodeStream(key, kit.DetBytes(c.Seed+int64(i), key.SaltSize()), req, nil), &net.TCPAddr{IP: net.IPv4(203, 0, 113, 9), Port: 2000 + i%60000})
		rec := kit.NewRecTCPConn()
		h.Handle(context.Background(), conn, rec)
		if cl, _ := rec.Closed(); cl.Status != "OK" {
			return kit.Violation("salt:setup", "connection %d under %s did not relay: %s", i, ks.ID, cl.Status)
		}
		out := conn.Output()
		if len(out) < key.SaltSize() {
			return kit.Violation("salt:response-undecryptable", "connection %d: response of %d bytes", i, len(out))
		}
		s := ks.Material() + "|" + string(out[:key.SaltSize()])
		if j, dup := seen[s]; dup {
			return kit.Violation("salt:reused", "connections %d and %d of one process (key %s) received the same server salt %x: %d response streams lie between them", j, i, ks.ID, out[:key.SaltSize()], i-j)
		}
		seen[s] = i
		if i%97 == 0 { // spot check: still decryptable and recognisable
			dec := kit.NewStreamDecoder(key)
			if err := dec.Feed(out); err != nil || string(dec.Plain) != "r" {
				return kit.Violation("salt:response-undecryptable", "connection %d: response does not decrypt under the client's key (%v)", i, err)
			}
		}
	}
	info.NonTrivial, info.Steps = true, c.Conns
	return nil
}

func TestC08_LongRun(t *testing.T) {
	p := kit.Prop[C08Long]{ID: "C08", Name: "LongRun", Quick: 8, Thorough: 400, Gen: genC08Long, Run: runC08Long}
	p.Execute(t)
}
