package props

// C12 (accept faults) — a transient failure of the shared accept (the process is out of file descriptors for a
// moment) does not lose connections and does not close handles.
//
// The fault is real: with client sockets created beforehand, the process lowers its RLIMIT_NOFILE so that accept4
// on the shared socket fails with EMFILE while connections wait in the backlog, then restores it. This test is a
// unit of its own (every shard a fresh process with nothing else running in it).

import (
	"errors"
	"fmt"
	"net"
	"sync"
	"syscall"
	"testing"
	"time"

	"github.com/Jigsaw-Code/outline-ss-server/service"
	"pgregory.net/rapid"
	"verif/harness/kit"
)

type C12Fault struct {
	Handles int   `json:"handles"`
	Rounds  []int `json:"rounds"`   // per round: connections that arrive while accept fails
	HoldMs  int   `json:"hold_ms"`  // how long the fault lasts
	After   int   `json:"after"`    // ordinary connections after each round
}

func genC12Fault(t *rapid.T) C12Fault {
	return C12Fault{Handles: rapid.IntRange(1, 4).Draw(t, "handles"), Rounds: rapid.SliceOfN(rapid.IntRange(1, 4), 1, 3).Draw(t, "rounds"),
		HoldMs: rapid.SampledFrom([]int{1, 5, 20}).Draw(t, "hold"), After: rapid.IntRange(0, 3).Draw(t, "after")}
}

func runC12Fault(c C12Fault, info *kit.Info) *kit.Finding {
	port, err := kit.FreePort()
	if err != nil {
		info.Skipped = "no free port"
		return nil
	}
	addr := fmt.Sprintf("127.0.0.1:%d", port)
	mgr := service.NewListenerManager()
	var mu sync.Mutex
	got := map[string]int{}  // token -> deliveries
	closedEarly := []int{}   // handles whose accept reported a closed listener while they were open
	transient := 0
	closing := false
	var wg sync.WaitGroup
	var handles []service.StreamListener
	for i := 0; i < c.Handles; i++ {
		sl, err := mgr.ListenStream(addr)
		if err != nil {
			return kit.Violation("fault:listen", "listen %d on %s failed: %v", i, addr, err)
		}
		handles = append(handles, sl)
		wg.Add(1)
		go func(i int, sl service.StreamListener) {
			defer wg.Done()
			for {
				conn, err := sl.AcceptStream()
				if err != nil {
					if errors.Is(err, net.ErrClosed) {
						mu.Lock()
						if !closing {
							closedEarly = append(closedEarly, i)
						}
						mu.Unlock()
						return
					}
					mu.Lock()
					transient++
					mu.Unlock()
					continue
				}
				go func() {
					defer conn.Close()
					conn.SetReadDeadline(time.Now().Add(5 * time.Second))
					buf := make([]byte, 8)
					n, _ := conn.Read(buf)
					mu.Lock()
					got[string(buf[:n])]++
					mu.Unlock()
				}()
			}
		}(i, sl)
	}
	finish := func() {
		mu.Lock()
		closing = true
		mu.Unlock()
		for _, h := range handles {
			h.Close()
		}
		wg.Wait()
	}
	waitFor := func(tokens []string) []string {
		deadline := time.Now().Add(5 * time.Second)
		for {
			var missing []string
			mu.Lock()
			for _, tk := range tokens {
				if got[tk] == 0 {
					missing = append(missing, tk)
				}
			}
			mu.Unlock()
			if len(missing) == 0 || time.Now().After(deadline) {
				return missing
			}
			time.Sleep(2 * time.Millisecond)
		}
	}
	var lim syscall.Rlimit
	if err := syscall.Getrlimit(syscall.RLIMIT_NOFILE, &lim); err != nil {
		finish()
		info.Skipped = "getrlimit: " + err.Error()
		return nil
	}
	sa := &syscall.SockaddrInet4{Port: port, Addr: [4]byte{127, 0, 0, 1}}
	var all []string
	for r, n := range c.Rounds {
		var fds []int
		var tokens []string
		for k := 0; k < n; k++ {
			fd, err := syscall.Socket(syscall.AF_INET, syscall.SOCK_STREAM, 0)
			if err != nil {
				finish()
				info.Skipped = "socket: " + err.Error()
				return nil
			}
			fds = append(fds, fd)
			tokens = append(tokens, fmt.Sprintf("f%02d-%04d", r, k))
		}
		low := lim
		low.Cur = 1
		if err := syscall.Setrlimit(syscall.RLIMIT_NOFILE, &low); err != nil {
			finish()
			info.Skipped = "setrlimit: " + err.Error()
			return nil
		}
		var cerr error
		for k, fd := range fds {
			if cerr = syscall.Connect(fd, sa); cerr != nil {
				break
			}
			syscall.Write(fd, []byte(tokens[k]))
		}
		time.Sleep(time.Duration(c.HoldMs) * time.Millisecond)
		syscall.Setrlimit(syscall.RLIMIT_NOFILE, &lim)
		if cerr != nil {
			for _, fd := range fds {
				syscall.Close(fd)
			}
			finish()
			info.Skipped = "connect: " + cerr.Error()
			return nil
		}
		missing := waitFor(tokens)
		for _, fd := range fds {
			syscall.Close(fd)
		}
		mu.Lock()
		early, tr := append([]int(nil), closedEarly...), transient
		mu.Unlock()
		if len(early) > 0 {
			finish()
			return kit.Violation("fault:handle-closed", "round %d of %+v: handle(s) %v, which nobody closed, reported a closed listener after the shared accept failed for lack of file descriptors (%d accept errors were handed to handles); connections not delivered: %v", r, c, early, tr, missing)
		}
		if len(missing) > 0 {
			finish()
			return kit.Violation("fault:lost", "round %d of %+v: connections %v, which waited in the backlog while accept failed for lack of file descriptors, were not delivered to any of the %d open handles within 5 s after the fault ended (%d accept errors were handed to handles)", r, c, missing, c.Handles, tr)
		}
		all = append(all, tokens...)
		var after []string
		for k := 0; k < c.After; k++ {
			cn, err := kit.DialTCP(addr, 2*time.Second)
			tk := fmt.Sprintf("a%02d-%04d", r, k)
			if err != nil {
				finish()
				return kit.Violation("fault:refused", "round %d of %+v: a connection after the fault was refused: %v", r, c, err)
			}
			cn.Write([]byte(tk))
			defer cn.Close()
			after = append(after, tk)
		}
		if missing := waitFor(after); len(missing) > 0 {
			finish()
			return kit.Violation("fault:lost", "round %d of %+v: connections %v made after the fault were not delivered to any open handle within 5 s", r, c, missing)
		}
		all = append(all, after...)
	}
	finish()
	mu.Lock()
	defer mu.Unlock()
	for _, tk := range all {
		if got[tk] != 1 {
			return kit.Violation("fault:duplicate", "connection %s was delivered %d times (%+v)", tk, got[tk], c)
		}
	}
	info.Steps = len(all)
	info.NonTrivial = transient > 0 // the fault was really seen by the accept loop
	if transient > 0 {
		info.Class("accept-errors-reached-the-handles")
	} else {
		info.Class("no-accept-error-seen")
	}
	return nil
}

func TestC12_AcceptFault(t *testing.T) {
	p := kit.Prop[C12Fault]{ID: "C12", Name: "AcceptFault", Quick: 60, Thorough: 3000, Gen: genC12Fault, Run: runC12Fault}
	p.Execute(t)
}
