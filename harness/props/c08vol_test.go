package props

// C08 (volume) — every salt issued for a key is recognised as the server's own, whatever its value.
//
// The response stream of a connection starts with a salt drawn from the key's ServerSaltGenerator (the Salts test
// ties the two together on real streams). A defect that depends on the *value* of the random part of a salt (a byte
// pattern that is rewritten, escaped or special-cased after the mark has been computed) shows once in millions of
// connections, so this test asks the generator of a generated key for millions of salts directly and checks every one.

import (
	"bytes"
	"fmt"
	"testing"

	"github.com/Jigsaw-Code/outline-sdk/transport/shadowsocks"
	"github.com/Jigsaw-Code/outline-ss-server/service"
	"pgregory.net/rapid"
	"verif/harness/kit"
)

type C08Vol struct {
	Cipher string `json:"cipher"`
	Secret string `json:"secret"`
	N      int    `json:"n"`
}

func genC08Vol(t *rapid.T) C08Vol {
	n := 250_000
	return C08Vol{Cipher: rapid.SampledFrom([]string{kit.Chacha, kit.AES256, kit.AES192}).Draw(t, "cipher"), Secret: rapid.StringMatching(`[a-zA-Z0-9]{1,24}`).Draw(t, "secret"), N: n}
}

func runC08Vol(c C08Vol, info *kit.Info) *kit.Finding {
	ck, err := shadowsocks.NewEncryptionKey(c.Cipher, c.Secret)
	if err != nil {
		return kit.Violation("salt:setup", "%v", err)
	}
	e := service.MakeCipherEntry("vol", ck, c.Secret)
	other := service.MakeCipherEntry("other", ck, c.Secret+"-other")
	size := ck.SaltSize()
	salt, prev := make([]byte, size), make([]byte, size)
	protoLike := 0
	for i := 0; i < c.N; i++ {
		if err := e.SaltGenerator.GetSalt(salt); err != nil {
			return kit.Violation("salt:generator-error", "salt %d for a %s key: %v", i, c.Cipher, err)
		}
		if !e.SaltGenerator.IsServerSalt(salt) {
			return kit.Violation("salt:not-recognised", "salt %d issued for a %s key (%d bytes) is not recognised as the server's own for that key: %x", i, c.Cipher, size, salt)
		}
		if bytes.Equal(salt, prev) {
			return kit.Violation("salt:reused", "salts %d and %d issued for one key are equal: %x", i-1, i, salt)
		}
		if i%1024 == 0 && other.SaltGenerator.IsServerSalt(salt) {
			return kit.Violation("salt:recognised-by-other-key", "salt %d issued for one key is recognised as its own by a key with another secret: %x", i, salt)
		}
		// salts that open like another protocol's first bytes (the region where value-dependent handling would sit)
		if (salt[0] >= 0x14 && salt[0] <= 0x17 && salt[1] == 3) || bytes.HasPrefix(salt, []byte("GE")) || bytes.HasPrefix(salt, []byte("PO")) || bytes.HasPrefix(salt, []byte("SS")) || salt[0] == 0 && salt[1] == 0 {
			protoLike++
		}
		copy(prev, salt)
	}
	info.Steps = c.N
	info.NonTrivial = protoLike > 0
	info.Class(fmt.Sprintf("salt:%d", size))
	return nil
}

func TestC08_Volume(t *testing.T) {
	p := kit.Prop[C08Vol]{ID: "C08", Name: "Volume", Quick: 40, Thorough: 1000, Gen: genC08Vol, Run: runC08Vol}
	p.Execute(t)
}
