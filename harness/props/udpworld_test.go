package props

// udpworld: shared executor for the UDP properties (C03, C04, C16 and parts of
// C05/C14). One real PacketHandler on a real dual-stack socket, generated client
// sockets on 127.x.y.z / ::1, scripted targets on both families, a history of
// datagrams, replies, stray senders and expiries. Each operation is executed
// and its effect awaited before the next one, so the reference model (an
// association table written from the property statements) is exact.

import (
	"bytes"
	"errors"
	"fmt"
	"net"
	"os"
	"time"

	"github.com/Jigsaw-Code/outline-ss-server/service"
	"pgregory.net/rapid"
	"verif/harness/kit"
)

type UOp struct {
	Kind   string `json:"kind"`           // send | reply | stray | expire | update
	List   []int  `json:"list,omitempty"` // update: the new key list
	// update: the list changes while a TCP client of the same service, on the UDP client's IP address and using a
	// key that is being dropped, is in the middle of its handshake (TCP and UDP of a service share the key list)
	ViaTCP bool `json:"via_tcp,omitempty"`
	Client int    `json:"client"`
	Key    int    `json:"key"`
	Target int    `json:"target"`
	N      int    `json:"n"`
	Seed   int64  `json:"seed"`
	Mut    string `json:"mut,omitempty"` // none | trunc | flip | random | badaddr | shortaddr
	MutArg int    `json:"mut_arg,omitempty"`
}

type UCase struct {
	Universe  []kit.KeySpec `json:"universe"`
	List      []int         `json:"list"`
	ClientIPs []string      `json:"client_ips"` // one socket per entry; repeated IPs = same IP, different ports
	Targets   []string      `json:"targets"`    // "v4" | "v6"
	TimeoutMs int           `json:"timeout_ms"` // NAT timeout
	// SlowRemoveMs: the sink of the removal report is slow, so an association stays in the table this long after its
	// removal was reported (the teardown window that is otherwise a few microseconds wide)
	SlowRemoveMs int   `json:"slow_remove_ms,omitempty"`
	Ops          []UOp `json:"ops"`
}

type uOpts struct {
	maxKeys, maxOps int
	expiry          bool // generate expire ops and a short NAT timeout
	manyClients     bool
	sizes           []int
}

// "ll6" is this host's link-local address (with its zone), when it has one: a client on the local link
var uClientIPs = []string{"127.0.0.1", "127.0.0.1", "127.0.0.2", "127.9.8.7", "127.0.0.2", "::1", "::1", "ll6"}

func genUCase(o uOpts) func(t *rapid.T) UCase {
	sizes := o.sizes
	if sizes == nil {
		sizes = []int{0, 1, 2, 17, 100, 1400, 1472, 1473, 8192, 20000, 65000, 65400}
	}
	return func(t *rapid.T) UCase {
		var c UCase
		c.Universe = kit.GenKeyUniverse(t, 2, o.maxKeys)
		n := len(c.Universe)
		c.List = genIdxList(t, n, "list", 1, n)
		maxClients := 4
		if o.manyClients {
			maxClients = 7
		}
		c.ClientIPs = rapid.SliceOfN(rapid.SampledFrom(uClientIPs), 1, maxClients).Draw(t, "clients")
		tkinds := []string{"v4", "v4", "v6", "v4x"}
		if !o.expiry {
			tkinds = append(tkinds, "dns") // a target on port 53 (its associations live 17 s: not with short timeouts)
		}
		c.Targets = rapid.SliceOfN(rapid.SampledFrom(tkinds), 1, 4).Draw(t, "targets")
		c.TimeoutMs = 300_000
		if o.expiry {
			c.TimeoutMs = rapid.SampledFrom([]int{120, 200, 350}).Draw(t, "timeout")
			c.SlowRemoveMs = rapid.SampledFrom([]int{0, 0, 0, 5, 20}).Draw(t, "slowRemove")
		}
		nops := rapid.IntRange(1, o.maxOps).Draw(t, "nops")
		kinds := []string{"send", "send", "send", "send", "send", "send", "send", "send", "reply", "reply", "reply", "reply", "stray", "stray", "update"}
		if o.expiry {
			kinds = append(kinds, "expire", "expire", "update", "update")
		}
		cur := c.List            // the list in force at this point of the history
		lastKey := map[int]int{} // client -> key of its latest well-formed datagram
		for i := 0; i < nops; i++ {
			op := UOp{Kind: rapid.SampledFrom(kinds).Draw(t, "kind")}
			op.Client = rapid.IntRange(0, len(c.ClientIPs)-1).Draw(t, "client")
			op.Target = rapid.IntRange(0, len(c.Targets)-1).Draw(t, "target")
			op.Seed = rapid.Int64Range(1, 1<<40).Draw(t, "seed")
			op.N = rapid.OneOf(rapid.SampledFrom(sizes), rapid.IntRange(0, 3000)).Draw(t, "n")
			if op.Kind != "send" && o.sizes == nil && rapid.IntRange(0, 3).Draw(t, "huge") == 0 {
				// replies at and beyond what one relayed datagram can carry (64 KiB buffer, salt, address slot, tag)
				op.N = rapid.OneOf(rapid.IntRange(65440, 65507), rapid.SampledFrom([]int{65460, 65469, 65470, 65477, 65478, 65485, 65486, 65501, 65507})).Draw(t, "hugeN")
			}
			if op.Kind == "send" {
				// bias towards keys in the list and towards the client's previous key
				prev, hasPrev := lastKey[op.Client]
				switch sel := rapid.IntRange(0, 7).Draw(t, "inlist"); {
				case sel <= 1 && hasPrev:
					op.Key = prev // also after the key has left the list
				case sel <= 5:
					op.Key = cur[rapid.IntRange(0, len(cur)-1).Draw(t, "keyInList")]
				default:
					op.Key = rapid.IntRange(0, n-1).Draw(t, "key")
				}
				op.Mut = rapid.SampledFrom([]string{"none", "none", "none", "none", "none", "trunc", "flip", "random", "badaddr", "shortaddr", "port0"}).Draw(t, "mut")
				switch op.Mut {
				case "trunc":
					op.MutArg = rapid.IntRange(0, 80).Draw(t, "truncAt")
				case "flip":
					op.MutArg = rapid.IntRange(0, 70*8-1).Draw(t, "flipBit")
				case "random":
					op.MutArg = rapid.SampledFrom([]int{0, 1, 15, 16, 31, 32, 33, 48, 49, 55, 200, 1500}).Draw(t, "randLen")
				case "badaddr":
					op.MutArg = rapid.SampledFrom([]int{0, 2, 5, 6, 255}).Draw(t, "atyp")
				}
			}
			if op.Kind == "send" && op.Mut == "none" {
				lastKey[op.Client] = op.Key
			}
			if op.Kind == "update" {
				// a new list; half of the time one that drops a key some client has been using
				op.List = genIdxList(t, n, "newlist", 1, n)
				dropped := false
				if len(lastKey) > 0 && rapid.IntRange(0, 3).Draw(t, "dropUsed") > 0 {
					if _, ok := lastKey[op.Client]; !ok {
						for cl := range c.ClientIPs { // a client that has sent something
							if _, ok := lastKey[cl]; ok {
								op.Client = cl
								break
							}
						}
					}
					drop := lastKey[op.Client]
					dropped = true
					var l []int
					for _, k := range op.List {
						if k != drop {
							l = append(l, k)
						}
					}
					if len(l) > 0 {
						op.List = l
					}
				}
				cur = op.List
				op.ViaTCP = rapid.IntRange(0, 2).Draw(t, "viaTCP") == 0
				if k, used := lastKey[op.Client]; used && dropped && o.expiry {
					// the former client comes back with its old key once its association has gone
					c.Ops = append(c.Ops, op, UOp{Kind: "expire"},
						UOp{Kind: "send", Client: op.Client, Key: k, Target: op.Target, N: op.N % 1400, Seed: op.Seed + 11, Mut: "none"})
					continue
				}
			}
			c.Ops = append(c.Ops, op)
		}
		return c
	}
}

// ---- trace the oracles work from -------------------------------------------

type uSendRec struct {
	Op         int
	Client     int
	WireLen    int
	Forwarded  bool   // reference expectation
	PayloadLen int    // payload the target must receive
	OnAssoc    bool   // datagram arrived on (or created) an association => must be reported
	Status     string // expected status when OnAssoc
	Gen        int    // association generation of the client
}

type uReplyRec struct {
	Op         int
	Client     int
	PayloadLen int
	WireLen    int // as received by the client
	Gen        int
	Lost       bool // a reply too large to be relayed in one datagram, and not relayed
}

type uAssoc struct {
	Client  int
	Gen     int
	Key     kit.KeySpec
	NatSrc  map[string]string // family ("v4"/"v6") -> source address seen by targets
	Sends   []uSendRec
	Replies []uReplyRec
	Rec     *kit.RecUDPAssoc
	Expired bool
	targets map[int]bool
	// for the DNS fast close: outbound writes attempted on the association (forwarded or failed in the kernel), whether
	// the first one went to port 53, and datagrams the association's socket has received
	Writes   int
	FirstDNS bool
	Reads    int
	// client-side instant taken before the most recent datagram that extends the deadline
	LastWrite time.Time
}

type uWorld struct {
	c        UCase
	info     *kit.Info
	met      *kit.RecService
	front    *kit.UDPFront
	clients  []*kit.UDPPeer
	targets  []*kit.UDPPeer
	stranger map[string]*kit.UDPPeer
	fence    *kit.UDPPeer
	fenceTgt *kit.UDPPeer // the fence client's own (always allowed) target
	fenceKey kit.KeySpec
	model    []kit.KeySpec // the key list in force
	ciphers  service.CipherList
	assoc    map[int]*uAssoc // live association per client index
	all      []*uAssoc
	salts    map[string]bool
	skipped  string
	// options
	checkForward bool // C03 oracles
	checkNAT     bool // C04 oracles
	updates      int
	aborted      bool // an expiry raced with an operation: the rest of the case is not judged
}

// ensureFresh keeps operations out of the ambiguous zone around an expiry: when the
// client's association is older than 0.4 x timeout, wait until it is reported removed.
func (w *uWorld) ensureFresh(i, ci int) *kit.Finding {
	a := w.liveAssoc(ci)
	to := time.Duration(w.c.TimeoutMs) * time.Millisecond
	if a == nil || time.Since(a.LastWrite) < to*4/10 {
		return nil
	}
	if !kit.WaitFor(to+uBound, func() bool { return a.Rec.Removed() > 0 }) {
		return kit.Violation("nat:not-expired", "op %d: association of client %d still not removed %v after its last forwarded datagram (timeout %v)", i, ci, time.Since(a.LastWrite), to)
	}
	a.Expired = true
	delete(w.assoc, ci)
	w.info.Class("expired-by-age")
	return nil
}

const uBound = 3 * time.Second

// forbiddenTargetIP is refused by the validator the UDP worlds install (everything else is permitted).
const forbiddenTargetIP = "127.0.0.66"

func permitAllBut66(ip net.IP) error {
	if ip.Equal(net.ParseIP(forbiddenTargetIP)) {
		return errors.New("destination not allowed in this world")
	}
	return nil
}

func (w *uWorld) close() {
	for _, p := range w.clients {
		p.Close()
	}
	for _, p := range w.targets {
		p.Close()
	}
	for _, p := range w.stranger {
		p.Close()
	}
	if w.fence != nil {
		w.fence.Close()
	}
	if w.fenceTgt != nil {
		w.fenceTgt.Close()
	}
	if w.front != nil {
		w.front.Close(2 * time.Second)
	}
}

func newUWorld(c UCase, info *kit.Info, validator func(net.IP) error) (*uWorld, *kit.Finding) {
	w := &uWorld{c: c, info: info, met: &kit.RecService{RemoveDelay: time.Duration(c.SlowRemoveMs) * time.Millisecond}, assoc: map[int]*uAssoc{}, salts: map[string]bool{}, stranger: map[string]*kit.UDPPeer{}}
	have6 := kit.HaveAddr("::1")
	for _, i := range c.List {
		w.model = append(w.model, c.Universe[i])
	}
	w.fenceKey = kit.KeySpec{ID: "fence", Cipher: kit.Chacha, Secret: "fence-secret"}
	listed := append(append([]kit.KeySpec(nil), w.model...), w.fenceKey)
	w.ciphers = kit.NewCipherList(listed)
	ph := service.NewPacketHandler(time.Duration(c.TimeoutMs)*time.Millisecond, w.ciphers, w.met, nil)
	if validator != nil {
		ph.SetTargetIPValidator(validator)
	}
	fip := "::"
	if !have6 {
		fip = "127.0.0.1"
	}
	var err error
	if w.front, err = kit.ServeUDP(fip, ph); err != nil {
		w.skipped = "cannot bind proxy socket: " + err.Error()
		return w, nil
	}
	for _, ip := range c.ClientIPs {
		if ip == "::1" && !have6 {
			ip = "127.0.0.3"
		}
		if ip == "ll6" {
			c05Detect()
			if ip = c05Local.zoned; ip == "" || !have6 {
				ip = "127.0.0.4"
			} else {
				info.Class("client-on-link-local-address")
			}
		}
		p, err := kit.NewUDPPeer(ip, 0)
		if err != nil {
			w.skipped = "cannot bind client socket on " + ip
			return w, nil
		}
		w.clients = append(w.clients, p)
	}
	for _, fam := range c.Targets {
		ip := "127.0.0.1"
		if fam == "v6" && have6 {
			ip = "::1"
		}
		if fam == "v4x" {
			ip = forbiddenTargetIP // a destination the policy of this world refuses
		}
		port := 0
		if fam == "dns" {
			// port 53 on a loopback address private to this process and target slot
			pid := os.Getpid()
			ip, port = fmt.Sprintf("127.%d.%d.%d", (pid/250)%250+1, pid%250+1, 100+len(w.targets)), 53
		}
		p, err := kit.NewUDPPeer(ip, port)
		if err != nil {
			w.skipped = "cannot bind target socket"
			return w, nil
		}
		w.targets = append(w.targets, p)
	}
	if w.fence, err = kit.NewUDPPeer("127.0.0.1", 0); err != nil {
		w.skipped = "cannot bind fence socket"
	}
	if w.fenceTgt, err = kit.NewUDPPeer("127.0.0.1", 0); err != nil {
		w.skipped = "cannot bind fence target socket"
	}
	return w, nil
}

func (w *uWorld) frontAddrFor(p *kit.UDPPeer) *net.UDPAddr {
	if p.Addr.IP.To4() != nil {
		return &net.UDPAddr{IP: net.IPv4(127, 0, 0, 1), Port: w.front.Addr.Port}
	}
	if p.Addr.Zone != "" { // link-local: the proxy's wildcard socket is reached on the same interface address
		return &net.UDPAddr{IP: p.Addr.IP, Zone: p.Addr.Zone, Port: w.front.Addr.Port}
	}
	return &net.UDPAddr{IP: net.IPv6loopback, Port: w.front.Addr.Port}
}

func fam(a *net.UDPAddr) string {
	if a.IP.To4() != nil {
		return "v4"
	}
	return "v6"
}

func (w *uWorld) buildDatagram(op UOp) (pkt []byte, keySpec kit.KeySpec) {
	keySpec = w.c.Universe[op.Key]
	key := keySpec.Key()
	if op.Mut == "random" {
		return kit.DetBytes(op.Seed, op.MutArg), keySpec
	}
	tgt := w.targets[op.Target]
	addr := kit.SocksAddr(tgt.Addr.IP.String(), tgt.Addr.Port, false)
	switch op.Mut {
	case "port0":
		addr = kit.SocksAddr(tgt.Addr.IP.String(), 0, false) // a legal address the kernel refuses to send to
	case "badaddr":
		addr = append([]byte{byte(op.MutArg)}, addr[1:]...)
	case "shortaddr":
		addr = addr[:len(addr)-1-int(op.Seed%3)]
	}
	n := op.N
	if op.Mut == "shortaddr" {
		n = 0
	}
	plain := append(addr, kit.DetBytes(op.Seed+1, n)...)
	pkt = kit.PackUDP(key, kit.DetBytes(op.Seed, key.SaltSize()), plain)
	switch op.Mut {
	case "trunc":
		if op.MutArg < len(pkt) {
			pkt = pkt[:op.MutArg]
		}
	case "flip":
		if op.MutArg/8 < len(pkt) {
			pkt[op.MutArg/8] ^= 1 << (op.MutArg % 8)
		}
	}
	return pkt, keySpec
}

// fenceThrough sends a valid datagram from the fence client to target ti and waits for it;
// returns every non-fence datagram that any target received meanwhile.
func (w *uWorld) fenceThrough(ti int, tag int64) (stray []string, f *kit.Finding) {
	tgt := w.fenceTgt // processed strictly after everything sent before it (one packet loop)
	marker := append([]byte("FENCE"), kit.DetBytes(tag, 8)...)
	plain := append(kit.SocksAddr(tgt.Addr.IP.String(), tgt.Addr.Port, false), marker...)
	k := w.fenceKey.Key()
	pkt := kit.PackUDP(k, kit.DetBytes(tag^0x5a5a, k.SaltSize()), plain)
	for attempt := 0; attempt < 3; attempt++ {
		w.fence.Send(pkt, w.frontAddrFor(w.fence))
		deadline := time.Now().Add(uBound)
		for time.Now().Before(deadline) {
			d, ok := tgt.Pop(time.Until(deadline))
			if !ok {
				break
			}
			if bytes.Equal(d.Data, marker) {
				time.Sleep(300 * time.Microsecond)
				for j, t := range w.targets {
					for _, x := range t.Drain() {
						if !bytes.HasPrefix(x.Data, []byte("FENCE")) {
							stray = append(stray, fmt.Sprintf("target %d got %d bytes from %v", j, len(x.Data), x.From))
						}
					}
				}
				return stray, nil
			}
			if !bytes.HasPrefix(d.Data, []byte("FENCE")) {
				stray = append(stray, fmt.Sprintf("fence target got %d bytes from %v", len(d.Data), d.From))
			}
		}
	}
	return stray, kit.Violation("udp:fence-lost", "a valid datagram from a fresh client was not forwarded within %v (3 attempts): the packet loop has stopped serving", uBound)
}

// racedWithRemoval reports whether the client's most recent association got a report after its removal report:
// the server reports the removal a moment before the entry leaves the table, so a datagram arriving in that
// window is still handled by (and reported on) the old association. Nothing in the properties forbids that;
// the model simply cannot know which association such a datagram met, so the rest of the case is not judged.
func (w *uWorld) racedWithRemoval(client string) bool {
	r := w.findRec(client, 0)
	if r == nil {
		return false
	}
	evs := r.Events()
	for i, e := range evs {
		if e.Kind == "removed" && i != len(evs)-1 {
			return true
		}
	}
	return false
}

func (w *uWorld) liveAssoc(ci int) *uAssoc {
	a := w.assoc[ci]
	if a == nil {
		return nil
	}
	if a.Rec != nil && a.Rec.Removed() > 0 {
		a.Expired = true
		delete(w.assoc, ci)
		return nil
	}
	return a
}

func (w *uWorld) findRec(client string, after int) *kit.RecUDPAssoc {
	as := w.met.UDPAssocs()
	for i := len(as) - 1; i >= after; i-- {
		if as[i].Client == client {
			return as[i]
		}
	}
	return nil
}

func (w *uWorld) doSend(i int, op UOp) *kit.Finding {
	if f := w.ensureFresh(i, op.Client); f != nil {
		return f
	}
	cl := w.clients[op.Client]
	pkt, ks := w.buildDatagram(op)
	a := w.liveAssoc(op.Client)
	nAssocBefore := len(w.met.UDPAssocs())

	// Reference decision with the independent codec.
	var plain []byte
	opens := false
	var matched []kit.KeySpec
	if a != nil {
		if _, p, err := kit.UnpackUDP(a.Key.Key(), pkt); err == nil {
			opens, plain = true, p
			matched = []kit.KeySpec{a.Key}
		}
	} else {
		for _, k := range append(append([]kit.KeySpec(nil), w.model...), w.fenceKey) {
			if _, p, err := kit.UnpackUDP(k.Key(), pkt); err == nil {
				opens, plain = true, p
				matched = append(matched, k)
			}
		}
	}
	var payload []byte
	addrOK, unsendable := false, false
	if opens {
		if host, port, n, err := kit.ParseSocksAddr(plain); err == nil {
			tgt := w.targets[op.Target]
			if ip := net.ParseIP(host); ip != nil && ip.Equal(tgt.Addr.IP) && port == tgt.Addr.Port {
				addrOK, payload = true, plain[n:]
			} else if ip != nil && ip.Equal(tgt.Addr.IP) && port == 0 {
				addrOK, unsendable = true, true
			}
		}
	}
	allowedDst := w.c.Targets[op.Target] != "v4x"
	expectForward := opens && addrOK && allowedDst && !unsendable
	rec := uSendRec{Op: i, Client: op.Client, WireLen: len(pkt), Forwarded: expectForward, PayloadLen: len(payload)}
	switch {
	case a != nil && !opens:
		rec.OnAssoc, rec.Status = true, "ERR_CIPHER"
	case a != nil && !addrOK:
		rec.OnAssoc, rec.Status = true, "ERR_READ_ADDRESS"
	case a != nil && !allowedDst:
		rec.OnAssoc, rec.Status = true, "ERR_ADDRESS_INVALID"
	case unsendable:
		// passes authentication and the destination policy, so it creates (or arrives on) an association; the send fails
		rec.OnAssoc, rec.Status = true, "ERR_WRITE"
	case expectForward:
		rec.OnAssoc, rec.Status = true, "OK"
	}
	w.info.Class("send:"+op.Mut, fmt.Sprintf("send-forward:%v", expectForward), fmt.Sprintf("send-known-client:%v", a != nil))
	if a == nil && !opens && op.Mut == "none" && w.updates > 0 {
		for _, o := range w.all {
			if o.Client == op.Client && o.Key.ID == ks.ID {
				w.info.Class("revoked-key-from-former-client")
				w.info.NonTrivial = true
				break
			}
		}
	}
	if opens && addrOK && !allowedDst {
		w.info.Class("send-to-refused-destination")
		w.info.NonTrivial = true
	}

	tgt := w.targets[op.Target]
	socketsBefore := kit.OpenSockets()
	sentAt := time.Now()
	if err := cl.Send(pkt, w.frontAddrFor(cl)); err != nil {
		if len(pkt) > 65507 || len(pkt) == 0 && false {
			return nil
		}
		// EMSGSIZE for datagrams beyond the UDP maximum: not sendable, skip the op.
		w.info.Class("send:unsendable")
		return nil
	}
	if expectForward {
		var d kit.Datagram
		ok := false
		for attempt := 0; attempt < 2 && !ok; attempt++ {
			if attempt > 0 {
				cl.Send(pkt, w.frontAddrFor(cl))
			}
			d, ok = tgt.Pop(uBound)
		}
		if !ok {
			if a != nil && a.Rec != nil && a.Rec.Removed() > 0 {
				// the association expired between the model's check and the server's lookup: the
				// datagram was then judged as a first datagram; re-run the op under the new state.
				a.Expired = true
				delete(w.assoc, op.Client)
				return w.doSend(i, op)
			}
			diag := "no association reported for the client"
			if r := w.findRec(cl.Addr.String(), 0); r != nil {
				evs := r.Events()
				diag = fmt.Sprintf("association reported (key %s, removed %d times), last events %+v", r.Key, r.Removed(), evs[max(0, len(evs)-3):])
			}
			return kit.Violation("udp:not-forwarded", "op %d: datagram valid under %s (client %d %v known=%v, %d bytes payload) did not reach its target %v within %v (2 attempts); server side: %s", i, ks.ID, op.Client, cl.Addr, a != nil, len(payload), tgt.Addr, uBound, diag)
		}
		if !bytes.Equal(d.Data, payload) {
			return kit.Violation("udp:payload-corrupt", "op %d: target received %d bytes, want the %d-byte payload after the address header (first diff at %d)", i, len(d.Data), len(payload), firstDiff(d.Data, payload))
		}
		if a == nil {
			a = &uAssoc{Client: op.Client, Gen: len(w.all), Key: matched[0], NatSrc: map[string]string{}, targets: map[int]bool{}}
			// locate the metrics record of the new association
			if kit.WaitFor(uBound, func() bool {
				return w.findRec(cl.Addr.String(), nAssocBefore) != nil || w.racedWithRemoval(cl.Addr.String())
			}) && w.findRec(cl.Addr.String(), nAssocBefore) != nil {
				a.Rec = w.findRec(cl.Addr.String(), nAssocBefore)
			} else if w.racedWithRemoval(cl.Addr.String()) {
				w.aborted = true
				w.info.Inconclusive = fmt.Sprintf("op %d met an association in the window between its removal report and its removal", i)
				return nil
			} else {
				return kit.Violation("udp:assoc-not-reported", "op %d: a datagram was forwarded for new client %v but no association was reported added", i, cl.Addr)
			}
			allowed := map[string]bool{}
			for _, k := range matched {
				allowed[k.ID] = true
			}
			if !allowed[a.Rec.Key] {
				return kit.Violation("udp:misattributed", "op %d: association attributed to %q, ids configured with that cipher+secret: %v", i, a.Rec.Key, keysOf(allowed))
			}
			w.assoc[op.Client] = a
			w.all = append(w.all, a)
			w.info.Class("assoc-created")
			if len(w.model) >= 2 && matched[0].Material() != w.model[0].Material() {
				w.info.Class("assoc-key-not-first")
				w.info.NonTrivial = true
			}
		} else {
			w.info.Class("send-on-live-assoc")
		}
		rec.Gen = a.Gen
		a.LastWrite = sentAt
		a.targets[op.Target] = true
		if a.Writes == 0 {
			a.FirstDNS = tgt.Addr.Port == 53
		}
		a.Writes++
		src := d.From.String()
		if prev, ok := a.NatSrc[fam(tgt.Addr)]; ok && prev != src && w.checkNAT {
			return kit.Violation("nat:source-changed", "op %d: client %d datagrams left from %s earlier and from %s now within one association", i, op.Client, prev, src)
		}
		a.NatSrc[fam(tgt.Addr)] = src
		if w.checkNAT {
			for ci, o := range w.assoc {
				if ci == op.Client {
					continue
				}
				if o.NatSrc[fam(tgt.Addr)] == src && w.liveAssoc(ci) != nil {
					return kit.Violation("nat:source-shared", "op %d: clients %d and %d share the outbound source address %s", i, op.Client, ci, src)
				}
			}
		}
		a.Sends = append(a.Sends, rec)
		if tgt.Addr.IP.To4() == nil {
			w.info.Class("v6-target")
			w.info.NonTrivial = true
		}
		if op.N >= 1472 {
			w.info.NonTrivial = true
		}
		// nothing else may have arrived anywhere
		stray, f := w.fenceThrough(op.Target, op.Seed)
		if f != nil {
			return f
		}
		if len(stray) > 0 {
			return kit.Violation("udp:duplicate-forward", "op %d: besides the expected datagram: %v", i, stray)
		}
		return nil
	}

	// Not to be forwarded: fence, then nothing may have arrived, and no association may have appeared.
	stray, f := w.fenceThrough(op.Target, op.Seed)
	if f != nil {
		return f
	}
	if len(stray) > 0 && a != nil && a.Rec.Removed() > 0 {
		// the association expired while the datagram was in flight: it was judged as a first datagram
		w.aborted = true
		w.info.Inconclusive = fmt.Sprintf("op %d raced with an expiry", i)
		return nil
	}
	if len(stray) > 0 && a == nil && w.findRec(cl.Addr.String(), nAssocBefore) == nil &&
		kit.WaitFor(300*time.Millisecond, func() bool { return w.racedWithRemoval(cl.Addr.String()) }) {
		// No new association: the datagram was handled on the client's previous association, after its removal was
		// reported and before it left the table (its report carries events after "removed"). The properties do not
		// speak about that window; what they forbid - a new association or traffic without one - did not happen.
		w.aborted = true
		w.info.Inconclusive = fmt.Sprintf("op %d met an association in the window between its removal report and its removal", i)
		return nil
	}
	if len(stray) > 0 {
		return kit.Violation("udp:forwarded-unauthenticated", "op %d: datagram that must not be forwarded (opens=%v addrOK=%v known=%v mut=%s) caused outbound traffic: %v", i, opens, addrOK, a != nil, op.Mut, stray)
	}
	if a == nil && unsendable && allowedDst {
		var r *kit.RecUDPAssoc
		if !kit.WaitFor(uBound, func() bool {
			r = w.findRec(cl.Addr.String(), nAssocBefore)
			return r != nil || w.racedWithRemoval(cl.Addr.String())
		}) || r == nil {
			if w.racedWithRemoval(cl.Addr.String()) {
				w.aborted = true
				w.info.Inconclusive = fmt.Sprintf("op %d met an association in the window between its removal report and its removal", i)
				return nil
			}
			return kit.Violation("udp:assoc-not-reported", "op %d: an authenticated datagram with an allowed destination created no association (its send failed, but it is the client's datagram that creates the association)", i)
		}
		na := &uAssoc{Client: op.Client, Gen: len(w.all), Key: matched[0], NatSrc: map[string]string{}, targets: map[int]bool{}, Rec: r, LastWrite: sentAt, Writes: 1}
		w.assoc[op.Client] = na
		w.all = append(w.all, na)
		na.Sends = append(na.Sends, withGen(rec, na.Gen))
		w.info.Class("assoc-created-by-unsendable-datagram")
		w.info.NonTrivial = true
		return nil
	}
	if a == nil {
		if r := w.findRec(cl.Addr.String(), nAssocBefore); r != nil {
			return kit.Violation("udp:assoc-without-auth", "op %d: an association was created for client %v by a datagram that must not create one (opens=%v addrOK=%v)", i, cl.Addr, opens, addrOK)
		}
		if after := kit.OpenSockets(); after > socketsBefore+1 { // +1: the fence client's own association may be new
			return kit.Violation("udp:socket-without-auth", "op %d: %d new sockets after an invalid first datagram", i, after-socketsBefore)
		}
		if !opens {
			w.info.Class("invalid-first-datagram")
		}
	} else {
		a.Sends = append(a.Sends, withGen(rec, a.Gen))
		if unsendable && allowedDst {
			a.LastWrite = sentAt
			a.Writes++ // the send was attempted: it counts as client activity
		}
		w.info.Class("invalid-on-live-assoc")
		w.info.NonTrivial = true
	}
	return nil
}

func withGen(r uSendRec, g int) uSendRec { r.Gen = g; return r }

// doReply: from is the sending peer (a contacted target or a stranger). After the reply proper, the DNS fast close:
// an association whose only outbound write was one datagram to port 53 closes right after the first datagram its
// socket receives, if that comes from port 53.
func (w *uWorld) doReply(i int, op UOp, from *kit.UDPPeer, kind string) *kit.Finding {
	a := w.liveAssoc(op.Client)
	f := w.doReplyInner(i, op, from, kind)
	if f != nil || a == nil || w.aborted {
		return f
	}
	if _, reached := a.NatSrc[fam(from.Addr)]; !reached && from.Addr.Zone == "" {
		return nil // nothing was sent
	}
	a.Reads++
	if a.Reads == 1 && from.Addr.Port == 53 && a.Writes == 1 && a.FirstDNS {
		if !kit.WaitFor(uBound, func() bool { return a.Rec != nil && a.Rec.Removed() > 0 }) {
			return kit.Violation("nat:no-fast-close", "op %d: client %d's association carried one DNS query and has received its first datagram, from port 53, but is not removed %v later", i, op.Client, uBound)
		}
		a.Expired = true
		delete(w.assoc, op.Client)
		w.info.Class("dns-fast-close")
		w.info.NonTrivial = true
	}
	return nil
}

func (w *uWorld) doReplyInner(i int, op UOp, from *kit.UDPPeer, kind string) *kit.Finding {
	if f := w.ensureFresh(i, op.Client); f != nil {
		return f
	}
	a := w.liveAssoc(op.Client)
	if a == nil {
		return nil
	}
	src, ok := a.NatSrc[fam(from.Addr)]
	if !ok && from.Addr.Zone == "" {
		return nil
	}
	to, _ := net.ResolveUDPAddr("udp", src)
	if from.Addr.Zone != "" {
		// the outbound socket is one wildcard socket: same port on every local address, also on the link-local one
		port := 0
		for _, s := range a.NatSrc {
			if ap, err := net.ResolveUDPAddr("udp", s); err == nil {
				port = ap.Port
			}
		}
		if port == 0 {
			return nil
		}
		to = &net.UDPAddr{IP: from.Addr.IP, Zone: from.Addr.Zone, Port: port}
		src = to.String()
	}
	n := op.N
	body := kit.DetBytes(op.Seed+3, n)
	cl := w.clients[op.Client]
	// Must this reply fit? The relay buffer is 64 KiB and holds salt, a 19-byte address slot, the body and the
	// tag; the relayed packet must also fit one datagram of the client's address family.
	saltLen := a.Key.Key().SaltSize()
	srcHdr := 7
	if from.Addr.IP.To4() == nil {
		srcHdr = 19
	}
	limit := 65507
	if cl.Addr.IP.To4() == nil {
		limit = 65527
	}
	if n > 65536-saltLen-19-16 || saltLen+srcHdr+n+16 > limit {
		return w.doHugeReply(i, op, a, from, kind, body, to)
	}
	if err := from.Send(body, to); err != nil {
		return nil
	}
	d, got := cl.Pop(uBound)
	if !got {
		if a.Rec != nil && a.Rec.Removed() > 0 {
			a.Expired = true
			delete(w.assoc, op.Client)
			return nil
		}
		from.Send(body, to)
		if d, got = cl.Pop(uBound); !got {
			return kit.Violation("udp:reply-lost", "op %d: %s datagram of %d bytes sent to %s (client %d's outbound address) was not relayed to the client within %v (2 attempts)", i, kind, n, src, op.Client, uBound)
		}
	}
	return w.judgeReply(i, op, a, from, kind, body, d)
}

// doHugeReply: a reply that cannot (or need not) be relayed in one datagram. Nothing obliges the proxy to
// deliver it; if it does, the client must get all of it, and either way it is accounted for once.
func (w *uWorld) doHugeReply(i int, op UOp, a *uAssoc, from *kit.UDPPeer, kind string, body []byte, to *net.UDPAddr) *kit.Finding {
	if a.Rec == nil {
		return nil
	}
	count := func() (n int) {
		for _, e := range a.Rec.Events() {
			if e.Kind == "fromTarget" {
				n++
			}
		}
		return
	}
	before := count()
	if err := from.Send(body, to); err != nil {
		return nil
	}
	w.info.Class("reply:oversize")
	if !kit.WaitFor(uBound, func() bool { return count() > before }) {
		w.info.Inconclusive = "an oversize reply never reached the proxy"
		w.aborted = true
		return nil
	}
	d, got := w.clients[op.Client].Pop(150 * time.Millisecond)
	if !got {
		a.Replies = append(a.Replies, uReplyRec{Op: i, Client: op.Client, PayloadLen: len(body), Gen: a.Gen, Lost: true})
		return nil
	}
	w.info.Class("reply:oversize-delivered")
	return w.judgeReply(i, op, a, from, kind, body, d)
}

func (w *uWorld) judgeReply(i int, op UOp, a *uAssoc, from *kit.UDPPeer, kind string, body []byte, d kit.Datagram) *kit.Finding {
	n := len(body)
	salt, plain, err := kit.UnpackUDP(a.Key.Key(), d.Data)
	if err != nil {
		return kit.Violation("udp:reply-wrong-key", "op %d: reply to client %d does not decrypt under the key that opened its association (%s)", i, op.Client, a.Key.ID)
	}
	if w.salts[string(salt)] {
		return kit.Violation("udp:reply-salt-reused", "op %d: reply salt %x was already used", i, salt)
	}
	w.salts[string(salt)] = true
	host, port, hl, err := kit.ParseSocksAddr(plain)
	if err != nil {
		return kit.Violation("udp:reply-bad-header", "op %d: reply plaintext has no valid address header: %v", i, err)
	}
	if ip := net.ParseIP(host); ip == nil || !ip.Equal(from.Addr.IP) || port != from.Addr.Port || (plain[0] == 1) != (from.Addr.IP.To4() != nil) {
		return kit.Violation("udp:reply-wrong-sender", "op %d: reply header says %s:%d (atyp %d), true sender is %v", i, host, port, plain[0], from.Addr)
	}
	if !bytes.Equal(plain[hl:], body) {
		return kit.Violation("udp:reply-corrupt", "op %d: reply payload differs (got %d bytes, sent %d, first diff %d)", i, len(plain)-hl, len(body), firstDiff(plain[hl:], body))
	}
	a.Replies = append(a.Replies, uReplyRec{Op: i, Client: op.Client, PayloadLen: n, WireLen: len(d.Data), Gen: a.Gen})
	w.info.Class("reply:" + kind + ":" + fam(from.Addr))
	if from.Addr.IP.To4() == nil || kind == "stray" {
		w.info.NonTrivial = true
	}
	// no other client may have received anything
	time.Sleep(300 * time.Microsecond)
	for ci, o := range w.clients {
		if q := o.Drain(); len(q) > 0 {
			return kit.Violation("nat:reply-misdelivered", "op %d: a datagram for client %d's outbound address was (also) delivered to client %d (%d datagrams)", i, op.Client, ci, len(q))
		}
	}
	return nil
}

func (w *uWorld) doExpire(i int) *kit.Finding {
	// wait until every live association is reported removed
	ok := kit.WaitFor(time.Duration(w.c.TimeoutMs)*time.Millisecond+uBound, func() bool {
		for _, a := range w.all {
			if a.Rec != nil && a.Rec.Removed() == 0 {
				return false
			}
		}
		return true
	})
	if !ok {
		return kit.Violation("nat:not-expired", "op %d: associations still not removed %v after the last traffic (timeout %d ms)", i, time.Duration(w.c.TimeoutMs)*time.Millisecond+uBound, w.c.TimeoutMs)
	}
	for ci, a := range w.assoc {
		a.Expired = true
		delete(w.assoc, ci)
	}
	w.info.Class("expire")
	return nil
}

func (w *uWorld) strangerFor(family string) *kit.UDPPeer {
	if p, ok := w.stranger[family]; ok {
		return p
	}
	ip := "127.0.0.1"
	if family == "v6" {
		ip = "::1"
	}
	if family == "ll6" {
		c05Detect()
		if ip = c05Local.zoned; ip == "" { // this host has no link-local address
			return nil
		}
	}
	p, err := kit.NewUDPPeer(ip, 0)
	if err != nil {
		return nil
	}
	w.stranger[family] = p
	return p
}

func (w *uWorld) run() *kit.Finding {
	for i, op := range w.c.Ops {
		w.info.Steps++
		var f *kit.Finding
		switch op.Kind {
		case "send":
			f = w.doSend(i, op)
		case "reply":
			f = w.doReply(i, op, w.targets[op.Target], "reply")
		case "stray":
			famly := "v4"
			if op.Seed%2 == 0 && kit.HaveAddr("::1") {
				famly = "v6"
			}
			if a := w.liveAssoc(op.Client); a != nil {
				if _, ok := a.NatSrc[famly]; !ok {
					for k := range a.NatSrc {
						famly = k
					}
				}
			}
			if op.Seed%5 == 0 {
				// a sender on a link-local address (its source address carries a zone, which the reply header cannot)
				if p := w.strangerFor("ll6"); p != nil && w.liveAssoc(op.Client) != nil {
					f = w.doReply(i, op, p, "stray-linklocal")
					break
				}
			}
			if p := w.strangerFor(famly); p != nil {
				f = w.doReply(i, op, p, "stray")
			}
		case "expire":
			f = w.doExpire(i)
		case "update":
			// the list changes under the running packet loop; live associations keep the key that opened them
			oldModel := w.model
			w.model = nil
			for _, k := range op.List {
				if k < len(w.c.Universe) {
					w.model = append(w.model, w.c.Universe[k])
				}
			}
			var gc *kit.GatedConn
			tcpDone := make(chan struct{})
			if op.ViaTCP {
				for _, old := range oldModel {
					dropped := true
					for _, n := range w.model {
						dropped = dropped && n.Material() != old.Material()
					}
					if !dropped {
						continue
					}
					key := old.Key()
					wire := kit.EncodeStream(key, kit.DetBytes(op.Seed+77, key.SaltSize()), append(kit.SocksAddr("192.0.2.99", 80, false), "x"...), nil)
					cip := w.clients[op.Client].Addr
					gc = kit.NewGatedConn(wire, &net.TCPAddr{IP: cip.IP, Zone: cip.Zone, Port: 40000 + i})
					auth := service.NewShadowsocksStreamAuthenticator(w.ciphers, nil, nil, nil)
					go func() { auth(gc); close(tcpDone) }()
					select {
					case <-gc.Waiting():
					case <-time.After(2 * time.Second):
					}
					w.info.Class("update-during-a-tcp-handshake-under-a-dropped-key")
					break
				}
			}
			w.ciphers.Update(kit.CipherEntries(append(append([]kit.KeySpec(nil), w.model...), w.fenceKey)))
			if gc != nil {
				gc.Open()
				select {
				case <-tcpDone:
				case <-time.After(2 * time.Second):
				}
			}
			w.updates++
			w.info.Class("update")
		}
		if f != nil {
			return f
		}
		if w.aborted {
			return nil
		}
	}
	return nil
}

// shutdown closes the proxy socket and waits for every association to be removed.
func (w *uWorld) shutdown() *kit.Finding {
	if !w.front.Close(uBound) {
		return kit.Violation("udp:handle-did-not-return", "PacketHandler.Handle did not return within %v after its socket was closed", uBound)
	}
	w.front = nil
	ok := kit.WaitFor(uBound, func() bool {
		for _, r := range w.met.UDPAssocs() {
			if r.Removed() == 0 {
				return false
			}
		}
		return true
	})
	if !ok {
		return kit.Violation("nat:not-reclaimed-on-shutdown", "associations not removed within %v after the packet listener was shut down", uBound)
	}
	return nil
}
