package props

// C11 — reload never interrupts service on retained listeners.
// The real main package runs in the executor; generated configuration sequences all retain one
// address (TCP and UDP) and one key; hammering clients connect and send datagrams continuously
// with the retained key while reloads happen, and relays opened before the first reload must
// run to completion afterwards.

import (
	"bytes"
	"errors"
	"fmt"
	"io"
	"net"
	"strings"
	"sync"
	"sync/atomic"
	"syscall"
	"testing"
	"time"

	"pgregory.net/rapid"
	"verif/harness/kit"
)

type C11Relay struct {
	State  string `json:"state"` // idle | mid | halfclosed
	Before int    `json:"before"`
	After  int    `json:"after"`
}

type C11Case struct {
	Universe []kit.KeySpec `json:"universe"`
	Configs  []GConfig     `json:"configs"` // Configs[0] is loaded first; the others are reloads; all get the retained service added
	Hammers  int           `json:"hammers"`
	UDPHam   int           `json:"udp_hammers"`
	PaceUs   int           `json:"pace_us"`
	GapMs    int           `json:"gap_ms"`
	Relays   []C11Relay    `json:"relays"`
	Seed     int64         `json:"seed"`
	// Faults[i-1] == "held": reload i also names an address that another process (the tester) holds, so it must
	// fail as a whole - and the retained address, present in the old and in the new configuration, stays in service
	Faults []string `json:"faults,omitempty"`
	// PadKeys: the retained service also carries this many other keys (a large deployment: preparing a
	// configuration then takes a noticeable time, during which the old one must go on serving)
	PadKeys int `json:"pad_keys,omitempty"`
	// IDClash: every configuration has one more service, after the retained one, on an address of its own, whose
	// key carries the retained key's *id* ("shared") with another cipher and secret (ids are labels; services
	// number their keys independently)
	IDClash bool `json:"id_clash,omitempty"`
}

var c11Shared = kit.KeySpec{ID: "shared", Cipher: kit.Chacha, Secret: "retained-secret"}

func genC11(t *rapid.T) C11Case {
	c := C11Case{Universe: kit.GenKeyUniverse(t, 2, 5), Seed: rapid.Int64Range(1, 1<<40).Draw(t, "seed")}
	n := rapid.IntRange(1, 6).Draw(t, "nreloads")
	for i := 0; i <= n; i++ {
		c.Configs = append(c.Configs, genConfig(t, c.Universe, fmt.Sprintf("c%d.", i)))
	}
	for i := 0; i < n; i++ {
		c.Faults = append(c.Faults, rapid.SampledFrom([]string{"", "", "", "held"}).Draw(t, "fault"))
	}
	c.PadKeys = rapid.SampledFrom([]int{0, 0, 0, 3000, 15000}).Draw(t, "padKeys")
	c.IDClash = rapid.IntRange(0, 2).Draw(t, "idClash") == 0
	c.Hammers = rapid.IntRange(1, 8).Draw(t, "hammers")
	c.UDPHam = rapid.IntRange(0, 3).Draw(t, "udphammers")
	c.PaceUs = rapid.SampledFrom([]int{0, 0, 100, 1000}).Draw(t, "pace")
	c.GapMs = rapid.SampledFrom([]int{0, 1, 5, 20}).Draw(t, "gap")
	nr := rapid.IntRange(0, 4).Draw(t, "nrelays")
	for i := 0; i < nr; i++ {
		c.Relays = append(c.Relays, C11Relay{State: rapid.SampledFrom([]string{"idle", "mid", "halfclosed"}).Draw(t, "state"),
			Before: rapid.SampledFrom([]int{0, 1, 1000, 40000}).Draw(t, "before"), After: rapid.SampledFrom([]int{1, 1000, 40000, 200000}).Draw(t, "after")})
	}
	return c
}

const c11Slot = maxSlots - 1 // the retained address uses a slot genConfig may also use: strip it from generated parts

// withRetained returns cfg plus the retained service (listener tcp+udp on the retained address, key "shared" first).
func withRetained(cfg GConfig, extraKeys []kit.KeySpec) GConfig {
	var out GConfig
	for _, s := range cfg.Services {
		var ls []GListener
		for _, l := range s.Listeners {
			if l.Slot != c11Slot {
				ls = append(ls, l)
			}
		}
		s.Listeners = ls
		out.Services = append(out.Services, s)
	}
	for _, k := range cfg.Legacy {
		if k.Slot != c11Slot {
			out.Legacy = append(out.Legacy, k)
		}
	}
	keys := append([]kit.KeySpec{c11Shared}, extraKeys...)
	out.Services = append(out.Services, GService{Listeners: []GListener{{"tcp", "127.0.0.1", c11Slot}, {"udp", "127.0.0.1", c11Slot}}, Keys: keys})
	return out
}

type c11Conn struct {
	local      string
	start, end time.Time
	err        string
}

// runC11 applies rule 2 of the design: a failure of this timing-sampling check is reported only if the same case
// fails again in at least one of three further runs (a real hand-over bug recurs, because every case contains
// many connections and several reloads; a one-off glitch of a heavily loaded host does not).
func runC11(c C11Case, info *kit.Info) *kit.Finding {
	f := runC11Once(c, info)
	if f == nil || strings.HasPrefix(f.Signature, "server:") {
		return f
	}
	for i := 0; i < 3; i++ {
		if f2 := runC11Once(c, &kit.Info{}); f2 != nil {
			return f
		}
	}
	info.Inconclusive = "did not reproduce in 3 further runs: " + f.Error()
	return nil
}

func runC11Once(c C11Case, info *kit.Info) *kit.Finding {
	s, why := newMainSession(c.Seed)
	if s == nil {
		info.Skipped = why
		return nil
	}
	defer s.close()
	addr := s.pt.addr("127.0.0.1", c11Slot)
	key := c11Shared.Key()
	var pad []kit.KeySpec
	for k := 0; k < c.PadKeys; k++ {
		pad = append(pad, kit.KeySpec{ID: fmt.Sprintf("pad-%d", k), Cipher: kit.AllCiphers[k%len(kit.AllCiphers)], Secret: fmt.Sprintf("pad-secret-%d", k)})
	}
	if c.PadKeys > 0 {
		info.Class("large-retained-service")
	}
	// the service whose key shares the retained key's id; always rendered right after the retained service
	clash := func(y string) string {
		if !c.IDClash {
			return y
		}
		svc := fmt.Sprintf("  - listeners:\n      - type: tcp\n        address: %s\n    keys:\n      - id: shared\n        cipher: aes-256-gcm\n        secret: another-service-numbers-its-keys-alike\n", yq(s.pt.addr("127.0.0.9", c11Slot)))
		if k := strings.Index(y, "\nkeys:\n"); k >= 0 && !strings.HasPrefix(y[k:], "\nkeys:\n      ") {
			return y[:k+1] + svc + y[k+1:]
		}
		return y + svc
	}
	if c.IDClash {
		info.Class("same-id-in-two-services")
	}
	cfgPath := func(i int) string {
		extra := append(append([]kit.KeySpec(nil), c.Universe[:i%len(c.Universe)]...), pad...)
		return s.writeConfig(clash(withRetained(c.Configs[i], extra).renderYAML(s.pt)))
	}
	// an address held by somebody else, for the reloads that must fail
	var heldAddr string
	for _, f := range c.Faults {
		if f == "held" && heldAddr == "" {
			hl, err := kit.ListenTCPLow(&net.TCPAddr{IP: net.IPv4(127, 0, 0, 1)})
			if err != nil {
				info.Skipped = err.Error()
				return nil
			}
			defer hl.Close()
			heldAddr = hl.Addr().String()
		}
	}
	faultyPath := func(i int) string {
		extra := append(append([]kit.KeySpec(nil), c.Universe[:i%len(c.Universe)]...), pad...)
		y := clash(withRetained(c.Configs[i], extra).renderYAML(s.pt))
		svc := fmt.Sprintf("  - listeners:\n      - type: tcp\n        address: %s\n    keys:\n      - id: held\n        cipher: chacha20-ietf-poly1305\n        secret: held-secret\n", yq(heldAddr))
		if c.Seed%2 == 0 { // before everything else, or after the last service
			y = strings.Replace(y, "services:\n", "services:\n"+svc, 1)
		} else if k := strings.Index(y, "\nkeys:\n"); k >= 0 && !strings.HasPrefix(y[k:], "\nkeys:\n      ") {
			y = y[:k+1] + svc + y[k+1:]
		} else {
			y += svc
		}
		return s.writeConfig(y)
	}
	r, err := s.ex.Do(map[string]any{"cmd": "run", "config": cfgPath(0)}, 30*time.Second)
	if err != nil {
		return execFailure(s, err)
	}
	if !r.OK {
		if portTakenByOthers(r.Err) {
			info.Skipped = "port taken by another process"
			return nil
		}
		return kit.Violation("reload:valid-config-rejected", "initial configuration failed to load: %s", r.Err)
	}

	// Relays opened before the first reload (need a destination the default policy allows: the local control address).
	type relay struct {
		spec   C11Relay
		cl     *net.TCPConn
		tc     *net.TCPConn
		enc    *kit.StreamEncoder
		dec    *kit.StreamDecoder
		cr, tr *kit.SideReader
		cSent  []byte
		tSent  []byte
		local  string
	}
	var relays []*relay
	var tgt *kit.TCPTarget
	if s.control != "" && len(c.Relays) > 0 {
		if tgt, err = kit.NewTCPTarget(s.control); err == nil {
			defer tgt.Close()
			for i, spec := range c.Relays {
				cn, err := kit.DialTCP(addr, 3*time.Second)
				if err != nil {
					if kit.EnvNetError(err) {
						info.Skipped = "host out of ports: " + err.Error()
						return nil
					}
					return kit.Violation("reload:refused", "cannot open relay %d before any reload: %v", i, err)
				}
				rl := &relay{spec: spec, cl: cn, local: cn.LocalAddr().String()}
				defer rl.cl.Close()
				rl.enc = kit.NewStreamEncoder(key, kit.DetBytes(s.nextSeed(), key.SaltSize()))
				first := kit.DetBytes(int64(i)+1, spec.Before)
				rl.cSent = append(rl.cSent, first...)
				rl.cl.Write(rl.enc.Chunk(append(kit.SocksAddr(s.control, tgt.Port(), false), first[:min(len(first), 16000)]...)))
				for off := 16000; off < len(first); off += 16000 {
					rl.cl.Write(rl.enc.Chunk(first[off:min(len(first), off+16000)]))
				}
				if rl.tc = tgt.Accept(5 * time.Second); rl.tc == nil {
					return kit.Violation("reload:relay-setup", "relay %d did not reach its target before any reload", i)
				}
				defer rl.tc.Close()
				rl.dec = kit.NewStreamDecoder(key)
				dec := rl.dec
				rl.cr = kit.NewSideReader(rl.cl, func(b []byte) { dec.Feed(b) })
				rl.tr = kit.NewSideReader(rl.tc, nil)
				if spec.State != "idle" {
					back := kit.DetBytes(int64(i)+100, spec.Before)
					rl.tSent = append(rl.tSent, back...)
					rl.tc.Write(back)
				}
				if spec.State == "halfclosed" {
					rl.cl.CloseWrite()
				}
				relays = append(relays, rl)
			}
		}
	} else if len(c.Relays) > 0 {
		info.Class("relays-skipped:no-allowed-local-address")
	}

	// Hammers.
	var stop atomic.Bool
	var mu sync.Mutex
	var conns []c11Conn
	var udpLocals []string
	var wg sync.WaitGroup
	for h := 0; h < c.Hammers; h++ {
		wg.Add(1)
		go func(h int) {
			defer wg.Done()
			seed := c.Seed + int64(h)*1_000_003
			for !stop.Load() {
				seed++
				rec := c11Conn{start: time.Now()}
				cn, err := kit.DialTCP(addr, 5*time.Second)
				if err != nil {
					if kit.EnvNetError(err) {
						time.Sleep(time.Millisecond)
						continue // host out of ports: not the server's doing
					}
					rec.err, rec.end = "dial: "+err.Error(), time.Now()
				} else {
					rec.local = cn.LocalAddr().String()
					cn.Write(kit.EncodeStream(key, kit.DetBytes(seed, key.SaltSize()), append(kit.SocksAddr("127.0.0.1", 9, false), "h"...), nil))
					cn.CloseWrite()
					cn.SetReadDeadline(time.Now().Add(5 * time.Second))
					_, rerr := io.Copy(io.Discard, cn)
					if rerr != nil {
						rec.err = "read: " + rerr.Error()
					}
					cn.Close()
					rec.end = time.Now()
				}
				mu.Lock()
				conns = append(conns, rec)
				mu.Unlock()
				if c.PaceUs > 0 {
					time.Sleep(time.Duration(c.PaceUs) * time.Microsecond)
				}
			}
		}(h)
	}
	udpSent := atomic.Int64{}
	for h := 0; h < c.UDPHam; h++ {
		wg.Add(1)
		go func(h int) {
			defer wg.Done()
			seed := c.Seed + int64(h)*7_000_003
			dest := kit.SocksAddr("127.0.0.1", 9, false)
			if s.udpSink != nil {
				dest = kit.SocksAddr(s.control, s.udpSink.Addr.Port, false)
			}
			for !stop.Load() {
				seed++
				uc, err := kit.DialUDPFixed(addr)
				if err != nil {
					return
				}
				uc.Write(kit.PackUDP(key, kit.DetBytes(seed, key.SaltSize()), append(dest, "d"...)))
				udpSent.Add(1)
				mu.Lock()
				udpLocals = append(udpLocals, uc.LocalAddr().String())
				mu.Unlock()
				// a refusal would show up as ECONNREFUSED on the connected socket
				uc.SetReadDeadline(time.Now().Add(500 * time.Microsecond))
				if _, err := uc.Read(make([]byte, 8)); err != nil && errors.Is(err, syscall.ECONNREFUSED) {
					mu.Lock()
					conns = append(conns, c11Conn{err: "udp: datagram to the retained address refused (ICMP)", start: time.Now(), end: time.Now()})
					mu.Unlock()
				}
				uc.Close()
				time.Sleep(time.Duration(200+c.PaceUs) * time.Microsecond)
			}
		}(h)
	}

	// Reloads.
	var reloads []c11Span
	failedReloads := 0
	time.Sleep(2 * time.Millisecond)
	for i := 1; i < len(c.Configs); i++ {
		faulty := i-1 < len(c.Faults) && c.Faults[i-1] == "held"
		p := ""
		if faulty {
			p = faultyPath(i)
		} else {
			p = cfgPath(i)
		}
		t0 := time.Now()
		r, err := s.ex.Do(map[string]any{"cmd": "reload", "config": p}, 30*time.Second)
		reloads = append(reloads, c11Span{t0, time.Now()})
		if err != nil {
			stop.Store(true)
			wg.Wait()
			return execFailure(s, err)
		}
		if faulty {
			failedReloads++
			if r.OK {
				stop.Store(true)
				wg.Wait()
				return kit.Violation("reload:unbindable-config-accepted", "reload %d names %s, which another process holds, and was reported successful", i, heldAddr)
			}
			time.Sleep(time.Duration(c.GapMs) * time.Millisecond)
			continue
		}
		if !r.OK {
			stop.Store(true)
			wg.Wait()
			if portTakenByOthers(r.Err) {
				info.Skipped = "port taken by another process"
				return nil
			}
			return kit.Violation("reload:valid-config-rejected", "reload %d failed: %s", i, r.Err)
		}
		time.Sleep(time.Duration(c.GapMs) * time.Millisecond)
	}
	time.Sleep(2 * time.Millisecond)
	stop.Store(true)
	wg.Wait()

	// Relays run to completion after the reloads.
	for i, rl := range relays {
		more := kit.DetBytes(int64(i)+200, rl.spec.After)
		if rl.spec.State != "halfclosed" {
			rl.cSent = append(rl.cSent, more...)
			for off := 0; off < len(more); off += 16000 {
				if _, err := rl.cl.Write(rl.enc.Chunk(more[off:min(len(more), off+16000)])); err != nil {
					return kit.Violation("reload:relay-broken", "relay %d (%s): client write after the reloads failed: %v", i, rl.spec.State, err)
				}
			}
			rl.cl.CloseWrite()
		}
		back := kit.DetBytes(int64(i)+300, rl.spec.After)
		rl.tSent = append(rl.tSent, back...)
		if _, err := rl.tc.Write(back); err != nil {
			return kit.Violation("reload:relay-broken", "relay %d (%s): target write after the reloads failed: %v", i, rl.spec.State, err)
		}
		rl.tc.CloseWrite()
		select {
		case <-rl.cr.Done():
		case <-time.After(8 * time.Second):
			return kit.Violation("reload:relay-stalled", "relay %d (%s) did not finish within 8 s after the reloads", i, rl.spec.State)
		}
		select {
		case <-rl.tr.Done():
		case <-time.After(8 * time.Second):
			return kit.Violation("reload:relay-stalled", "relay %d (%s): target did not see end of stream within 8 s", i, rl.spec.State)
		}
		if got := rl.tr.Bytes(); !bytes.Equal(got, rl.cSent) {
			return kit.Violation("reload:relay-corrupt", "relay %d (%s): target received %d bytes, client sent %d (first diff %d)", i, rl.spec.State, len(got), len(rl.cSent), firstDiff(got, rl.cSent))
		}
		var plain []byte
		rl.cr.Locked(func() { plain = append([]byte(nil), rl.dec.Plain...) })
		if !bytes.Equal(plain, rl.tSent) || rl.dec.Err != nil {
			return kit.Violation("reload:relay-corrupt", "relay %d (%s): client received %d bytes, target sent %d (err %v)", i, rl.spec.State, len(plain), len(rl.tSent), rl.dec.Err)
		}
		if _, eof, e, _ := rl.cr.State(); !eof || e != nil {
			return kit.Violation("reload:relay-reset", "relay %d (%s) ended with %v instead of a normal close", i, rl.spec.State, e)
		}
	}

	// Judge the hammer connections against the executor's events.
	if _, _, err := s.ex.WaitEvent(0, 300*time.Millisecond, func(kit.ExecEvent) bool { return false }); err != nil {
		return execFailure(s, err)
	}
	type agg struct {
		open, closed, auth int
		key, status        string
	}
	byRemote := map[string]*agg{}
	udpAdds := map[string]int{}
	udpKey := map[string]string{}
	searchesOK := 0
	for _, e := range s.ex.Events {
		switch e.Kind {
		case "tcp_open", "tcp_closed", "tcp_auth":
			a := byRemote[e.Remote]
			if a == nil {
				a = &agg{}
				byRemote[e.Remote] = a
			}
			switch e.Kind {
			case "tcp_open":
				a.open++
			case "tcp_closed":
				a.closed++
				a.status = e.Status
			case "tcp_auth":
				a.auth++
				a.key = e.Key
			}
		case "udp_add":
			udpAdds[e.Remote]++
			udpKey[e.Remote] = e.Key
		case "search":
			if e.Proto == "udp" && e.Found {
				searchesOK++
			}
		}
	}
	// a local port may (rarely) be used by two successive connections of one case: count per address
	perLocal := map[string]int{}
	for _, cn := range conns {
		if cn.err == "" {
			perLocal[cn.local]++
		}
	}
	overlaps := 0
	for _, cn := range conns {
		if cn.err != "" {
			return kit.Violation("reload:service-interrupted", "a client using the retained address and key failed during reloads: %s (connection %s, %v..%v relative to first reload)", cn.err, cn.local, cn.start.Sub(reloads0(reloads, cn.start)), cn.end.Sub(reloads0(reloads, cn.start)))
		}
		a := byRemote[cn.local]
		n := perLocal[cn.local]
		if a == nil || a.open != n || a.closed != n {
			return kit.Violation("reload:not-handled-exactly-once", "%d connection(s) from %s were reported opened %d and closed %d times (each must be handled by exactly one generation)", n, cn.local, ifnil(a).open, ifnil(a).closed)
		}
		if a.auth != n || a.key != "shared" {
			return kit.Violation("reload:retained-key-refused", "connection %s with the retained key: %d authentications, key %q, status %s", cn.local, a.auth, a.key, a.status)
		}
		for _, sp := range reloads {
			if cn.start.Before(sp.b) && cn.end.After(sp.a) {
				overlaps++
				break
			}
		}
	}
	for _, rl := range relays {
		a := byRemote[rl.local]
		if a == nil || a.open != 1 || a.closed != 1 || a.status != "OK" {
			return kit.Violation("reload:relay-status", "relay %s: opened %d closed %d status %q, want 1/1/OK", rl.local, ifnil(a).open, ifnil(a).closed, ifnil(a).status)
		}
	}
	if n := int(udpSent.Load()); n > 0 {
		// every datagram is handled by exactly one generation
		kit.WaitFor(time.Second, func() bool {
			s.ex.Drain()
			cnt := 0
			for _, e := range s.ex.Events {
				if e.Kind == "search" && e.Proto == "udp" {
					cnt++
				}
			}
			return cnt >= n
		})
		found, total := 0, 0
		for _, e := range s.ex.Events {
			if e.Kind == "search" && e.Proto == "udp" {
				total++
				if e.Found {
					found++
				}
			}
		}
		if total > n {
			return kit.Violation("reload:datagram-handled-twice", "%d datagrams sent to the retained address, %d were processed", n, total)
		}
		if found != total {
			return kit.Violation("reload:retained-key-refused", "%d of %d datagrams with the retained key did not authenticate during reloads", total-found, total)
		}
		if total < n {
			info.Inconclusive = fmt.Sprintf("%d of %d datagrams not processed (UDP loss is not a violation by itself)", n-total, n)
			info.Class("udp-datagrams-unprocessed")
		}
		for _, l := range udpLocals {
			if udpAdds[l] > 1 {
				return kit.Violation("reload:datagram-handled-twice", "client %s got %d associations", l, udpAdds[l])
			}
			if udpAdds[l] == 1 && udpKey[l] != "shared" {
				return kit.Violation("reload:retained-key-refused", "datagram from %s attributed to %q", l, udpKey[l])
			}
		}
	}
	info.NonTrivial = overlaps > 0 || len(relays) > 0
	info.Steps = len(conns)
	info.Class(fmt.Sprintf("reloads:%d", len(reloads)), fmt.Sprintf("overlapping-conns:%v", overlaps > 0), fmt.Sprintf("relays:%d", len(relays)), fmt.Sprintf("failed-reloads:%d", min(failedReloads, 3)))
	return nil
}

type c11Span struct{ a, b time.Time }

func reloads0(r []c11Span, def time.Time) time.Time {
	if len(r) > 0 {
		return r[0].a
	}
	return def
}

func ifnil[T any](p *T) T {
	var z T
	if p == nil {
		return z
	}
	return *p
}

func TestC11_Hammer(t *testing.T) {
	p := kit.Prop[C11Case]{ID: "C11", Name: "Hammer", Quick: 120, Thorough: 10000, Gen: genC11, Run: runC11}
	p.Execute(t)
}
