package props

// C12 — shared listeners deliver each connection or datagram exactly once.
//
// A state machine over one ListenerManager address, for stream and packet
// listeners: acquire / close(handle) / call(handle) (a pending accept or read in
// its own goroutine) / send (a connection or datagram carrying a unique token) /
// settle. Oracle: history invariants — exactly-once delivery, nothing to a handle
// closed before the call started, ErrClosed for pending and later calls, release
// of the socket, no goroutine left, orphaned connections closed.

import (
	"errors"
	"fmt"
	"io"
	"net"
	"strings"
	"sync"
	"testing"
	"time"

	"github.com/Jigsaw-Code/outline-ss-server/service"
	"pgregory.net/rapid"
	"verif/harness/kit"
)

type C12Op struct {
	Kind   string `json:"kind"` // acquire | close | call | send | settle
	Handle int    `json:"handle,omitempty"`
	N      int    `json:"n,omitempty"`
}

type C12Case struct {
	Packet bool    `json:"packet"`
	Ops    []C12Op `json:"ops"`
	// packet listeners: the address family of the shared socket and the size every datagram is padded to
	// (65507 is the largest IPv4 datagram, 65527 the largest IPv6 one)
	V6    bool `json:"v6,omitempty"`
	PadTo int  `json:"pad_to,omitempty"`
}

func genC12(packet bool, maxOps int) func(t *rapid.T) C12Case {
	return func(t *rapid.T) C12Case {
		c := C12Case{Packet: packet}
		if packet {
			c.V6 = rapid.Bool().Draw(t, "v6")
			c.PadTo = rapid.SampledFrom([]int{0, 0, 0, 1400, 9000, 65507, 65508, 65520, 65527}).Draw(t, "padTo")
		}
		n := rapid.IntRange(1, maxOps).Draw(t, "nops")
		c.Ops = append(c.Ops, C12Op{Kind: "acquire"})
		for i := 0; i < n; i++ {
			op := C12Op{Kind: rapid.SampledFrom([]string{"acquire", "acquire_blocked", "close", "close", "call", "call", "call", "send", "send", "send", "settle"}).Draw(t, "kind")}
			op.Handle = rapid.IntRange(0, 5).Draw(t, "handle")
			op.N = rapid.IntRange(1, 3).Draw(t, "n")
			c.Ops = append(c.Ops, op)
		}
		return c
	}
}

type c12Call struct {
	h        *c12Handle
	started  time.Time
	done     chan struct{}
	token    string
	size     int // packet: bytes received
	err      error
	finished time.Time
}

type c12Handle struct {
	idx      int
	sl       service.StreamListener
	pc       net.PacketConn
	closed   bool
	closedAt time.Time // when Close returned
	calls    []*c12Call
}

type c12World struct {
	packet        bool
	padTo, size   int
	addr          string
	mgr           service.ListenerManager
	handles       []*c12Handle
	mu            sync.Mutex
	deliv         map[string][]*c12Call // token -> calls that received it
	sent          []string
	conns         map[string]net.Conn // stream: client side per token
	accepted      []net.Conn
	client        *net.UDPConn
	info          *kit.Info
	inflightClose bool
	voided        map[string]bool // undelivered when the last handle closed: nobody can receive them any more
}

const c12Bound = 4 * time.Second

func freeAddr(packet bool) (string, error) {
	// below the ephemeral range, so that no client socket of a concurrently running check can take it meanwhile
	p, err := kit.FreePort()
	if err != nil {
		return "", err
	}
	return fmt.Sprintf("127.0.0.1:%d", p), nil
}

func (w *c12World) startCall(h *c12Handle) *c12Call {
	c := &c12Call{h: h, started: time.Now(), done: make(chan struct{})}
	h.calls = append(h.calls, c)
	go func() {
		defer close(c.done)
		if w.packet {
			buf := make([]byte, 66000)
			n, _, err := h.pc.ReadFrom(buf)
			c.err = err
			if err == nil {
				c.token, c.size = string(buf[:min(n, 8)]), n
			}
		} else {
			conn, err := h.sl.AcceptStream()
			c.err = err
			if err == nil {
				w.mu.Lock()
				w.accepted = append(w.accepted, conn)
				w.mu.Unlock()
				conn.SetReadDeadline(time.Now().Add(c12Bound))
				buf := make([]byte, 8)
				if _, rerr := io.ReadFull(conn, buf); rerr == nil {
					c.token = string(buf)
				} else {
					c.token = "?unreadable:" + rerr.Error()
				}
			}
		}
		c.finished = time.Now()
		if c.err == nil {
			w.mu.Lock()
			w.deliv[c.token] = append(w.deliv[c.token], c)
			w.mu.Unlock()
		}
	}()
	return c
}

func (c *c12Call) isDone() bool {
	select {
	case <-c.done:
		return true
	default:
		return false
	}
}

func (w *c12World) send() error {
	tok := fmt.Sprintf("tok%05d", len(w.sent))
	if w.packet {
		ra, _ := net.ResolveUDPAddr("udp", w.addr)
		pkt := []byte(tok)
		if w.padTo > len(pkt) {
			pkt = append(pkt, make([]byte, w.padTo-len(pkt))...)
		}
		if _, err := w.client.WriteToUDP(pkt, ra); err != nil {
			return err
		}
		w.size = len(pkt)
	} else {
		c, err := kit.DialTCP(w.addr, c12Bound)
		if err != nil {
			return err
		}
		c.Write([]byte(tok))
		w.conns[tok] = c
	}
	w.sent = append(w.sent, tok)
	return nil
}

func (w *c12World) counts() (pendingOpen, undelivered int) {
	for _, h := range w.handles {
		if h.closed {
			continue
		}
		for _, c := range h.calls {
			if !c.isDone() {
				pendingOpen++
			}
		}
	}
	w.mu.Lock()
	defer w.mu.Unlock()
	for _, t := range w.sent {
		if len(w.deliv[t]) == 0 && !w.voided[t] {
			undelivered++
		}
	}
	return
}

func (w *c12World) check() *kit.Finding {
	w.mu.Lock()
	defer w.mu.Unlock()
	for tok, cs := range w.deliv {
		if len(cs) > 1 {
			return kit.Violation("listener:duplicate-delivery", "token %s was delivered %d times (handles %d and %d)", tok, len(cs), cs[0].h.idx, cs[1].h.idx)
		}
		c := cs[0]
		if strings.HasPrefix(tok, "?") {
			continue
		}
		if w.packet && c.size != w.size {
			return kit.Violation("listener:datagram-truncated", "datagram %s of %d bytes was delivered to handle %d as %d bytes: the datagram that arrived was not delivered", tok, w.size, c.h.idx, c.size)
		}
		if c.h.closed && !c.h.closedAt.IsZero() && c.started.After(c.h.closedAt) {
			return kit.Violation("listener:delivered-to-closed-handle", "token %s was delivered to handle %d by a call that started %v after its Close had returned", tok, c.h.idx, c.started.Sub(c.h.closedAt))
		}
	}
	return nil
}

func (w *c12World) settle() *kit.Finding {
	ok := kit.WaitFor(c12Bound, func() bool { p, u := w.counts(); return p == 0 || u == 0 })
	if f := w.check(); f != nil {
		return f
	}
	if !ok {
		p, u := w.counts()
		return kit.Violation("listener:lost", "%d connections/datagrams undelivered although %d accept/read calls are pending on open handles (after %v)", u, p, c12Bound)
	}
	return nil
}

func isClosedErr(err error) bool { return errors.Is(err, net.ErrClosed) }

// runC12 repeats the case: deliveries racing with closes are schedule-dependent, and a failing
// case must fail with high probability when rapid re-executes it while shrinking.
func runC12(c C12Case, info *kit.Info) *kit.Finding {
	for r := 0; r < 4; r++ {
		scratch := &kit.Info{}
		if r == 0 {
			scratch = info
		}
		if f := runC12Once(c, scratch); f != nil {
			return f
		}
		if scratch.Skipped != "" {
			break
		}
	}
	info.Steps *= 4
	return nil
}

func runC12Once(c C12Case, info *kit.Info) *kit.Finding {
	addr, err := freeAddr(c.Packet)
	if err != nil {
		info.Skipped = err.Error()
		return nil
	}
	clientIP := net.IPv4(127, 0, 0, 1)
	padTo := min(c.PadTo, 65507)
	if c.Packet && c.V6 && kit.HaveAddr("::1") {
		_, port, _ := net.SplitHostPort(addr)
		addr, clientIP, padTo = net.JoinHostPort("::1", port), net.IPv6loopback, c.PadTo
		info.Class("packet:ipv6")
	}
	if padTo > 65507 {
		info.Class("packet:beyond-the-IPv4-maximum")
	}
	baseline := map[string]bool{}
	for _, g := range kit.RepoGoroutines() {
		baseline[goroutineID(g)] = true // leaks of earlier cases are not this case's
	}
	w := &c12World{packet: c.Packet, addr: addr, mgr: service.NewListenerManager(), deliv: map[string][]*c12Call{}, conns: map[string]net.Conn{}, info: info, voided: map[string]bool{}, padTo: padTo}
	if c.Packet {
		w.client, err = net.ListenUDP("udp", &net.UDPAddr{IP: clientIP})
		if err != nil {
			info.Skipped = err.Error()
			return nil
		}
		defer w.client.Close()
	}
	defer func() {
		for _, cn := range w.conns {
			cn.Close()
		}
		w.mu.Lock()
		for _, cn := range w.accepted {
			cn.Close()
		}
		w.mu.Unlock()
	}()
	open := func() []*c12Handle {
		var out []*c12Handle
		for _, h := range w.handles {
			if !h.closed {
				out = append(out, h)
			}
		}
		return out
	}
	closeHandle := func(h *c12Handle) *kit.Finding {
		p, u := w.counts()
		if u > 0 || p > 0 {
			w.inflightClose = true
		}
		var err error
		done := make(chan struct{})
		go func() {
			if w.packet {
				err = h.pc.Close()
			} else {
				err = h.sl.Close()
			}
			close(done)
		}()
		select {
		case <-done:
		case <-time.After(5 * time.Second):
			return kit.Violation("listener:close-hangs", "Close of handle %d did not return within 5 s", h.idx)
		}
		h.closed, h.closedAt = true, time.Now()
		if err != nil {
			return kit.Violation("listener:close-error", "Close of handle %d returned %v", h.idx, err)
		}
		if len(open()) == 0 {
			// full release: whatever was not handed to a handle by now can no longer be received by anyone
			time.Sleep(200 * time.Microsecond)
			w.mu.Lock()
			for _, t := range w.sent {
				if len(w.deliv[t]) == 0 {
					w.voided[t] = true
				}
			}
			w.mu.Unlock()
		}
		// pending calls of this handle must be unblocked with a closed-network error (or a delivery that was in flight)
		for _, cl := range h.calls {
			select {
			case <-cl.done:
			case <-time.After(c12Bound):
				return kit.Violation("listener:pending-call-not-unblocked", "a pending accept/read on handle %d was not unblocked within %v of Close", h.idx, c12Bound)
			}
			if cl.err != nil && !isClosedErr(cl.err) {
				return kit.Violation("listener:wrong-error", "pending call on closed handle %d returned %v, want net.ErrClosed", h.idx, cl.err)
			}
		}
		return nil
	}

	for i, op := range c.Ops {
		info.Steps++
		switch op.Kind {
		case "acquire":
			if len(w.handles) >= 6 {
				continue
			}
			h := &c12Handle{idx: len(w.handles)}
			var err error
			acq := make(chan struct{})
			go func() {
				defer close(acq)
				if c.Packet {
					h.pc, err = w.mgr.ListenPacket(addr)
				} else {
					h.sl, err = w.mgr.ListenStream(addr)
				}
			}()
			select {
			case <-acq:
			case <-time.After(5 * time.Second):
				return kit.Violation("listener:acquire-hangs", "op %d: listening on %s did not return within 5 s", i, addr)
			}
			if err != nil {
				if strings.Contains(err.Error(), "address already in use") && len(open()) == 0 {
					// released sockets must be re-bindable: give it the bound, then judge
					ok := kit.WaitFor(c12Bound, func() bool {
						if c.Packet {
							h.pc, err = w.mgr.ListenPacket(addr)
						} else {
							h.sl, err = w.mgr.ListenStream(addr)
						}
						return err == nil
					})
					if !ok {
						return kit.Violation("listener:not-released", "op %d: address %s cannot be listened on again %v after the last handle closed: %v", i, addr, c12Bound, err)
					}
				} else {
					return kit.Violation("listener:acquire-error", "op %d: acquire failed with %d open handles: %v", i, len(open()), err)
				}
			}
			if len(w.handles) > 0 && len(open()) == 0 {
				info.Class("reacquire-after-full-release")
				info.NonTrivial = true
			}
			w.handles = append(w.handles, h)
		case "acquire_blocked":
			// Another process holds the address while the manager tries to listen on it (only possible while the
			// manager itself has no socket there): the attempt must fail cleanly and leave nothing behind.
			if len(open()) > 0 {
				continue
			}
			var hold interface{ Close() error }
			var herr error
			if c.Packet {
				hold, herr = net.ListenPacket("udp", addr)
			} else {
				hold, herr = net.Listen("tcp", addr)
			}
			if herr != nil {
				// the manager's previous socket may still be closing: skip rather than judge
				continue
			}
			var lerr error
			if c.Packet {
				var pc net.PacketConn
				if pc, lerr = w.mgr.ListenPacket(addr); lerr == nil {
					pc.Close()
				}
			} else {
				var sl service.StreamListener
				if sl, lerr = w.mgr.ListenStream(addr); lerr == nil {
					sl.Close()
				}
			}
			hold.Close()
			if lerr == nil {
				return kit.Violation("listener:acquired-held-address", "op %d: listening on %s succeeded although another socket holds the address", i, addr)
			}
			info.Class("failed-acquire")
			info.NonTrivial = true
		case "close":
			if o := open(); len(o) > 0 {
				if f := closeHandle(o[op.Handle%len(o)]); f != nil {
					return f
				}
			}
		case "call":
			if len(w.handles) == 0 {
				continue
			}
			h := w.handles[op.Handle%len(w.handles)]
			cl := w.startCall(h)
			if h.closed {
				info.Class("call-on-closed-handle")
				select {
				case <-cl.done:
				case <-time.After(c12Bound):
					return kit.Violation("listener:call-on-closed-hangs", "op %d: accept/read on closed handle %d did not return within %v", i, h.idx, c12Bound)
				}
				if cl.err == nil {
					return kit.Violation("listener:delivered-to-closed-handle", "op %d: accept/read on handle %d, closed %v earlier, returned %q instead of net.ErrClosed", i, h.idx, time.Since(h.closedAt), cl.token)
				}
				if !isClosedErr(cl.err) {
					return kit.Violation("listener:wrong-error", "op %d: call on closed handle %d returned %v, want net.ErrClosed", i, h.idx, cl.err)
				}
			}
		case "send":
			if len(open()) == 0 {
				continue
			}
			for k := 0; k < op.N; k++ {
				if _, u := w.counts(); w.padTo > 9000 && u >= 1 {
					break // one huge datagram in flight at a time: two of them overflow the socket's receive buffer
				}
				if err := w.send(); err != nil {
					return kit.Violation("listener:refused", "op %d: connecting/sending to %s failed while %d handles are open: %v", i, addr, len(open()), err)
				}
			}
		case "settle":
			if f := w.settle(); f != nil {
				return f
			}
		}
		if f := w.check(); f != nil {
			return f
		}
	}
	if f := w.settle(); f != nil {
		return f
	}
	nOpen := len(open())
	if nOpen >= 2 {
		hs := map[int]bool{}
		w.mu.Lock()
		for _, cs := range w.deliv {
			hs[cs[0].h.idx] = true
		}
		w.mu.Unlock()
		if len(hs) >= 2 {
			info.NonTrivial = true
			info.Class("deliveries-on-several-handles")
		}
	}
	// final: close everything
	for _, h := range open() {
		if f := closeHandle(h); f != nil {
			return f
		}
	}
	if w.inflightClose {
		info.NonTrivial = true
		info.Class("close-with-delivery-in-flight")
	}
	if f := w.check(); f != nil {
		return f
	}
	// the socket is released
	rebound := kit.WaitFor(c12Bound, func() bool {
		if c.Packet {
			p, err := net.ListenPacket("udp", addr)
			if err == nil {
				p.Close()
			}
			return err == nil
		}
		l, err := net.Listen("tcp", addr)
		if err == nil {
			l.Close()
		}
		return err == nil
	})
	if !rebound {
		return kit.Violation("listener:not-released", "address %s cannot be bound %v after the last handle closed", addr, c12Bound)
	}
	// accepted-but-orphaned connections are closed, not left hanging
	if !c.Packet {
		w.mu.Lock()
		var orphans []string
		for _, t := range w.sent {
			if len(w.deliv[t]) == 0 {
				orphans = append(orphans, t)
			}
		}
		w.mu.Unlock()
		for _, t := range orphans {
			cn := w.conns[t]
			cn.SetReadDeadline(time.Now().Add(c12Bound))
			_, err := cn.Read(make([]byte, 1))
			if kit.IsTimeout(err) {
				return kit.Violation("listener:orphan-left-hanging", "connection %s was accepted by the shared socket but never handed to a handle; %v after the last handle closed it is still open (neither EOF nor reset)", t, c12Bound)
			}
		}
		if len(orphans) > 0 {
			info.Class("orphans-at-last-close")
		}
	}
	// nothing keeps running
	var left []string
	gone := kit.WaitFor(c12Bound, func() bool {
		left = left[:0]
		for _, g := range kit.RepoGoroutines() {
			if strings.Contains(g, "service/listeners.go") && !strings.Contains(g, "props.(*c12World).startCall") && !baseline[goroutineID(g)] {
				left = append(left, g)
			}
		}
		return len(left) == 0
	})
	if !gone {
		return kit.Violation("listener:goroutine-left", "%d goroutine(s) of the shared listener still running %v after the last handle closed:\n%s", len(left), c12Bound, left[0])
	}
	return nil
}

func TestC12_Stream(t *testing.T) {
	p := kit.Prop[C12Case]{ID: "C12", Name: "Stream", Quick: 1500, Thorough: 100000, Gen: genC12(false, 25), Run: runC12}
	p.Execute(t)
}

func TestC12_Packet(t *testing.T) {
	p := kit.Prop[C12Case]{ID: "C12", Name: "Packet", Quick: 1500, Thorough: 100000, Gen: genC12(true, 25), Run: runC12}
	p.Execute(t)
}

func goroutineID(stack string) string {
	if i := strings.IndexByte(stack, '['); i > 0 {
		return strings.TrimSpace(stack[:i])
	}
	return stack
}

// ---- concurrent delivery under handle churn -------------------------------------------------
// What a configuration reload does to a retained address, at full speed: dialers connect
// continuously while a churn goroutine acquires a new handle (with its accept loop) and then closes
// the previous one. Some handle is accepting at every instant, so every connection must be accepted
// and served by exactly one handle; none may be lost, closed unserved, or served twice.

type C12Churn struct {
	Dialers int   `json:"dialers"`
	Conns   int   `json:"conns_per_dialer"`
	Overlap int   `json:"overlap_us"` // how long old and new handle coexist
	Extra   int   `json:"extra_handles"`
	Seed    int64 `json:"seed"`
}

func genC12Churn(t *rapid.T) C12Churn {
	return C12Churn{Dialers: rapid.IntRange(1, 8).Draw(t, "dialers"), Conns: rapid.IntRange(20, 200).Draw(t, "conns"),
		Overlap: rapid.SampledFrom([]int{0, 0, 10, 100}).Draw(t, "overlap"), Extra: rapid.IntRange(0, 2).Draw(t, "extra"), Seed: rapid.Int64Range(1, 1<<40).Draw(t, "seed")}
}

func runC12Churn(c C12Churn, info *kit.Info) *kit.Finding {
	addr, err := freeAddr(false)
	if err != nil {
		info.Skipped = err.Error()
		return nil
	}
	mgr := service.NewListenerManager()
	var mu sync.Mutex
	served := map[string]int{}
	var loops sync.WaitGroup
	serve := func(ln service.StreamListener) {
		loops.Add(1)
		go func() {
			defer loops.Done()
			for {
				conn, err := ln.AcceptStream()
				if err != nil {
					return
				}
				go func() {
					defer conn.Close()
					buf := make([]byte, 8)
					conn.SetReadDeadline(time.Now().Add(c12Bound))
					if _, err := io.ReadFull(conn, buf); err == nil {
						mu.Lock()
						served[string(buf)]++
						mu.Unlock()
						conn.Write([]byte("k"))
					}
				}()
			}
		}()
	}
	cur, err := mgr.ListenStream(addr)
	if err != nil {
		info.Skipped = err.Error()
		return nil
	}
	serve(cur)
	var extras []service.StreamListener
	for i := 0; i < c.Extra; i++ {
		if l, err := mgr.ListenStream(addr); err == nil {
			extras = append(extras, l)
			serve(l)
		}
	}
	stop := make(chan struct{})
	churnDone := make(chan *kit.Finding, 1)
	reloads := 0
	go func() {
		for {
			select {
			case <-stop:
				churnDone <- nil
				return
			default:
			}
			next, err := mgr.ListenStream(addr)
			if err != nil {
				churnDone <- kit.Violation("listener:acquire-error", "acquiring a second handle on a held address failed: %v", err)
				return
			}
			serve(next)
			if c.Overlap > 0 {
				time.Sleep(time.Duration(c.Overlap) * time.Microsecond)
			}
			cur.Close()
			cur = next
			reloads++
		}
	}()
	var dialers sync.WaitGroup
	var fnd kit.Finding
	var failed bool
	for d := 0; d < c.Dialers; d++ {
		dialers.Add(1)
		go func(d int) {
			defer dialers.Done()
			for i := 0; i < c.Conns; i++ {
				tok := fmt.Sprintf("%02d%06d", d, i)
				cn, err := kit.DialTCP(addr, c12Bound)
				if err != nil {
					if kit.EnvNetError(err) {
						continue
					}
					mu.Lock()
					if !failed {
						failed, fnd = true, *kit.Violation("listener:refused", "connection %s refused while a handle was open throughout: %v", tok, err)
					}
					mu.Unlock()
					return
				}
				cn.Write([]byte(tok))
				cn.SetReadDeadline(time.Now().Add(c12Bound))
				b := make([]byte, 1)
				_, rerr := io.ReadFull(cn, b)
				cn.SetLinger(0)
				cn.Close()
				if rerr != nil {
					mu.Lock()
					if !failed {
						failed, fnd = true, *kit.Violation("listener:lost", "connection %s was accepted by the shared socket but not served by any handle (%v) although a handle was accepting at every instant (%d handle replacements so far)", tok, rerr, reloads)
					}
					mu.Unlock()
					return
				}
			}
		}(d)
	}
	dialers.Wait()
	close(stop)
	if f := <-churnDone; f != nil {
		return f
	}
	cur.Close()
	for _, l := range extras {
		l.Close()
	}
	done := make(chan struct{})
	go func() { loops.Wait(); close(done) }()
	select {
	case <-done:
	case <-time.After(c12Bound):
		return kit.Violation("listener:pending-call-not-unblocked", "accept loops did not end within %v of closing every handle", c12Bound)
	}
	if failed {
		return &fnd
	}
	mu.Lock()
	defer mu.Unlock()
	for tok, n := range served {
		if n != 1 {
			return kit.Violation("listener:duplicate-delivery", "connection %s was served %d times", tok, n)
		}
	}
	info.NonTrivial = reloads > 0
	info.Steps = c.Dialers * c.Conns
	info.Class(fmt.Sprintf("replacements>0:%v", reloads > 0))
	return nil
}

func TestC12_Churn(t *testing.T) {
	p := kit.Prop[C12Churn]{ID: "C12", Name: "Churn", Quick: 60, Thorough: 4000, Gen: genC12Churn, Run: runC12Churn}
	p.Execute(t)
}
