package props

// C18 — no network input can crash the server or leak its resources.
//
// Every case is journalled before it runs (an unrecovered panic in a goroutine of the server kills
// the process; the journalled case is then the replay file). TCP: hostile authenticated plaintext
// from a grammar of malformed headers and chunk framings, raw bytes, generated termination orders.
// UDP: hostile datagrams, replies of any size from every local source class (incl. zoned
// link-local), listener shutdown at any point. A canary connection/datagram must still be served.

import (
	"context"
	"errors"
	"fmt"
	"io"
	"net"
	"strings"
	"sync"
	"sync/atomic"
	"testing"
	"time"

	"github.com/Jigsaw-Code/outline-sdk/transport"
	"github.com/Jigsaw-Code/outline-ss-server/service"
	"pgregory.net/rapid"
	"verif/harness/kit"
)

// ---- header grammar ---------------------------------------------------------------

type HostileHeader struct {
	Atyp    int    `json:"atyp"`
	Host    string `json:"host"`     // for atyp 1/3/4
	DomLen  int    `json:"dom_len"`  // declared domain length (atyp 3), -1 = true length
	Port    int    `json:"port"`     // -1: use the live target's port
	TruncAt int    `json:"trunc_at"` // cut the serialised header here (-1 = whole)
	Payload int    `json:"payload"`
}

var hostileHosts = []string{"127.0.0.1", "127.9.9.9", "::1", "0.0.0.0", "::", "localhost", "", "nx.verif.test", "a..b", strings.Repeat("x", 255), "127.0.0.1%lo", "[::1]", "::ffff:127.0.0.1"}

func genHostileHeader(t *rapid.T) HostileHeader {
	return HostileHeader{
		Atyp:    rapid.OneOf(rapid.SampledFrom([]int{1, 3, 4, 1, 3, 4, 0, 2, 5, 255}), rapid.IntRange(0, 255)).Draw(t, "atyp"),
		Host:    rapid.SampledFrom(hostileHosts).Draw(t, "host"),
		DomLen:  rapid.SampledFrom([]int{-1, -1, 0, 1, 255, 128}).Draw(t, "domlen"),
		Port:    rapid.SampledFrom([]int{-1, -1, 0, 1, 53, 65535}).Draw(t, "port"),
		TruncAt: rapid.OneOf(rapid.Just(-1), rapid.IntRange(0, 24)).Draw(t, "truncAt"),
		Payload: rapid.SampledFrom([]int{0, 1, 100, 20000}).Draw(t, "payload"),
	}
}

func (h HostileHeader) bytes(livePort int, seed int64) []byte {
	port := h.Port
	if port < 0 {
		port = livePort
	}
	var b []byte
	switch h.Atyp {
	case 1:
		ip := net.ParseIP(h.Host).To4()
		if ip == nil {
			ip = net.IPv4(127, 0, 0, 1).To4()
		}
		b = append([]byte{1}, ip...)
	case 4:
		ip := net.ParseIP(h.Host)
		if ip == nil {
			ip = net.IPv6loopback
		}
		b = append([]byte{4}, ip.To16()...)
	case 3:
		l := len(h.Host)
		if h.DomLen >= 0 {
			l = h.DomLen
		}
		b = append([]byte{3, byte(l)}, h.Host...)
	default:
		b = append([]byte{byte(h.Atyp)}, kit.DetBytes(seed, 6)...)
	}
	b = append(b, byte(port>>8), byte(port))
	if h.TruncAt >= 0 && h.TruncAt < len(b) {
		return b[:h.TruncAt]
	}
	return append(b, kit.DetBytes(seed+1, h.Payload)...)
}

// ---- TCP -----------------------------------------------------------------------------

type C18Conn struct {
	Kind    string        `json:"kind"` // raw | plain | framing
	Raw     int           `json:"raw"`
	Header  HostileHeader `json:"header"`
	Framing string        `json:"framing"` // zero_chunk | len_high_bits | len_too_big | len_mismatch | truncated_chunk
	End     string        `json:"end"`     // client_close | client_reset | hold | target_close
	Key     int           `json:"key"`
	Seed    int64         `json:"seed"`
}

type C18TCP struct {
	Keys          []kit.KeySpec `json:"keys"`
	Conns         []C18Conn     `json:"conns"`
	CloseListener int           `json:"close_listener_after"` // close the listener after this many connections (-1: at the end)
}

func genC18TCP(t *rapid.T) C18TCP {
	c := C18TCP{Keys: kit.GenKeyUniverse(t, 1, 4), CloseListener: rapid.SampledFrom([]int{-1, -1, 0, 1, 3}).Draw(t, "closeAfter")}
	n := rapid.IntRange(1, 10).Draw(t, "nconns")
	for i := 0; i < n; i++ {
		c.Conns = append(c.Conns, C18Conn{
			Kind: rapid.SampledFrom([]string{"raw", "plain", "plain", "plain", "framing"}).Draw(t, "kind"), Raw: rapid.SampledFrom([]int{0, 1, 49, 50, 51, 500, 70000}).Draw(t, "raw"),
			Header: genHostileHeader(t), Framing: rapid.SampledFrom([]string{"zero_chunk", "len_high_bits", "len_too_big", "len_mismatch", "truncated_chunk"}).Draw(t, "framing"),
			End: rapid.SampledFrom([]string{"client_close", "client_close", "client_reset", "hold", "target_close"}).Draw(t, "end"),
			Key: rapid.IntRange(0, len(c.Keys)-1).Draw(t, "key"), Seed: rapid.Int64Range(1, 1<<40).Draw(t, "seed")})
	}
	return c
}

func runC18TCP(c C18TCP, info *kit.Info) *kit.Finding {
	defer kit.NoGC()() // leaked sockets must not be rescued by finalizers
	kit.InstallFakeDNS()
	panics0 := kit.Logs.PanicCount()
	baseline := map[string]bool{}
	for _, g := range kit.RepoGoroutines() {
		baseline[goroutineID(g)] = true
	}
	sock0 := kit.OpenSockets()
	h := service.NewStreamHandler(service.NewShadowsocksStreamAuthenticator(kit.NewCipherList(c.Keys), nil, nil, nil), 300*time.Millisecond)
	h.SetTargetDialer(kit.PermissiveDialer)
	var inflight atomic.Int32
	front, err := kit.ServeTCP("127.0.0.1", func(ctx context.Context, conn transport.StreamConn) {
		inflight.Add(1)
		defer inflight.Add(-1)
		ctx2, cancel := context.WithTimeout(ctx, 3*time.Second) // bounds a changed tree that dials out
		defer cancel()
		h.Handle(ctx2, conn, nil)
	})
	if err != nil {
		info.Skipped = err.Error()
		return nil
	}
	tgt, err := kit.NewTCPTarget("127.0.0.1")
	if err != nil {
		front.Close(time.Second)
		info.Skipped = err.Error()
		return nil
	}
	var clients []net.Conn
	listenerClosed := false
	closeListener := func() { listenerClosed = true; front.L.Close() }
	canary := func(when string) *kit.Finding {
		if listenerClosed {
			return nil
		}
		key := c.Keys[0].Key()
		ctgt, err := kit.NewTCPTarget("127.0.0.1") // its own target: the shared one has hostile connections queued
		if err != nil {
			return nil
		}
		defer ctgt.Close()
		cl, err := kit.DialTCP(front.Addr, 3*time.Second)
		if err != nil {
			if kit.EnvNetError(err) {
				return nil
			}
			return kit.Violation("robust:listener-stopped", "%s: cannot connect to the proxy any more: %v", when, err)
		}
		defer cl.Close()
		cl.Write(kit.EncodeStream(key, kit.DetBytes(int64(len(clients))+99, key.SaltSize()), append(kit.SocksAddrFor(ctgt.Addr, false), "canary"...), nil))
		tc := ctgt.Accept(3 * time.Second)
		if tc == nil {
			return kit.Violation("robust:others-affected", "%s: a well-formed connection is no longer served after the hostile ones", when)
		}
		buf := make([]byte, 6)
		tc.SetReadDeadline(time.Now().Add(3 * time.Second))
		if _, err := io.ReadFull(tc, buf); err != nil || string(buf) != "canary" {
			tc.Close()
			return kit.Violation("robust:others-affected", "%s: canary payload not relayed (%v, %q)", when, err, buf)
		}
		tc.Close()
		return nil
	}
	for i, cn := range c.Conns {
		info.Steps++
		if i == c.CloseListener {
			closeListener()
		}
		if listenerClosed {
			break
		}
		key := c.Keys[cn.Key].Key()
		var wire []byte
		switch cn.Kind {
		case "raw":
			wire = kit.DetBytes(cn.Seed, cn.Raw)
		case "plain":
			wire = kit.EncodeStream(key, kit.DetBytes(cn.Seed, key.SaltSize()), cn.Header.bytes(tgt.Port(), cn.Seed), []int{1 + int(cn.Seed%20)})
			info.NonTrivial = true
		case "framing":
			e := kit.NewStreamEncoder(key, kit.DetBytes(cn.Seed, key.SaltSize()))
			addr := kit.SocksAddrFor(tgt.Addr, false)
			switch cn.Framing {
			case "zero_chunk":
				wire = append(e.Chunk(nil), e.Chunk(addr)...)
			case "len_high_bits":
				wire = e.ChunkWithLen(addr, uint16(len(addr))|0xC000)
			case "len_too_big":
				wire = e.ChunkWithLen(addr, 0xFFFF)
			case "len_mismatch":
				wire = e.ChunkWithLen(addr, uint16(len(addr)+5))
			case "truncated_chunk":
				w := e.Chunk(append(addr, kit.DetBytes(cn.Seed, 100)...))
				wire = w[:len(w)-1-int(cn.Seed%40)]
			}
			info.NonTrivial = true
		}
		cl, err := kit.DialTCP(front.Addr, 3*time.Second)
		if err != nil {
			if kit.EnvNetError(err) {
				info.Skipped = "host out of ports: " + err.Error()
				break
			}
			return kit.Violation("robust:listener-stopped", "connection %d: cannot connect to the proxy: %v", i, err)
		}
		clients = append(clients, cl)
		cl.Write(wire)
		info.Class("tcp:"+cn.Kind, "end:"+cn.End)
		switch cn.End {
		case "client_close":
			cl.Close()
		case "client_reset":
			cl.SetLinger(0)
			cl.Close()
		case "target_close":
			if tc := tgt.Accept(50 * time.Millisecond); tc != nil {
				tc.Close()
			}
		}
	}
	if f := canary("after the hostile connections"); f != nil {
		return f
	}
	// End everything: clients, targets, listener. Serving stops only after all running handlers have returned.
	for _, cl := range clients {
		cl.Close()
	}
	tgt.Close()
	if !listenerClosed {
		closeListener()
	}
	select {
	case <-frontDone(front):
		if n := inflight.Load(); n != 0 {
			return kit.Violation("robust:serve-returned-early", "StreamServe returned while %d handlers were still running", n)
		}
	case <-time.After(6 * time.Second):
		return kit.Violation("robust:serve-did-not-return", "StreamServe did not return within 6 s after the listener and every connection were closed (%d handlers in flight)", inflight.Load())
	}
	if n := kit.Logs.PanicCount(); n > panics0 {
		return kit.Violation("robust:panic-recovered", "the server logged %d recovered panic(s): %v", n-panics0, kit.Logs.PanicsSince(panics0))
	}
	return leakCheck(baseline, sock0, "the TCP case")
}

func frontDone(f *kit.TCPFront) <-chan struct{} {
	ch := make(chan struct{})
	go func() {
		for !f.Returned() {
			time.Sleep(200 * time.Microsecond)
		}
		close(ch)
	}()
	return ch
}

func leakCheck(baseline map[string]bool, sock0 int, what string) *kit.Finding {
	var left []string
	ok := kit.WaitFor(4*time.Second, func() bool {
		left = left[:0]
		for _, g := range kit.RepoGoroutines() {
			if !baseline[goroutineID(g)] && !strings.Contains(g, "props.runC18") && !strings.Contains(g, "kit.(*UDPPeer)") && !strings.Contains(g, "kit.NewTCPTarget") {
				left = append(left, g)
			}
		}
		return len(left) == 0 && kit.OpenSockets() <= sock0
	})
	if !ok {
		st := ""
		if len(left) > 0 {
			st = left[0]
		}
		return kit.Violation("robust:leak", "4 s after %s ended: %d goroutine(s) of the server still running, %d sockets open (baseline %d)\n%s", what, len(left), kit.OpenSockets(), sock0, st)
	}
	return nil
}

func TestC18_TCP(t *testing.T) {
	p := kit.Prop[C18TCP]{ID: "C18", Name: "TCP", Quick: 1200, Thorough: 150000, Gen: genC18TCP, Run: runC18TCP, Journal: true}
	p.Execute(t)
}

// ---- UDP -----------------------------------------------------------------------------

type C18UOp struct {
	Kind   string        `json:"kind"` // raw | plain | good | reply | shutdown
	Raw    int           `json:"raw"`
	Header HostileHeader `json:"header"`
	Src    string        `json:"src"`  // reply: local source class
	Size   int           `json:"size"` // reply size
	Seed   int64         `json:"seed"`
	Key    int           `json:"key"`
	// raw/plain: 0 = the client that already has an association, 1..3 = other client sockets (a hostile datagram
	// can also be the first one of a client address)
	Client int `json:"client,omitempty"`
}

type C18UDP struct {
	Keys []kit.KeySpec `json:"keys"`
	Ops  []C18UOp      `json:"ops"`
}

var c18SrcClasses = []string{"v4-loopback", "v6-loopback", "public-v4", "ula", "link-local-zoned"}

func genC18UDP(t *rapid.T) C18UDP {
	c := C18UDP{Keys: kit.GenKeyUniverse(t, 1, 4)}
	n := rapid.IntRange(1, 14).Draw(t, "nops")
	c.Ops = append(c.Ops, C18UOp{Kind: "good", Seed: 1})
	for i := 0; i < n; i++ {
		c.Ops = append(c.Ops, C18UOp{
			Kind: rapid.SampledFrom([]string{"raw", "plain", "plain", "good", "reply", "reply", "reply", "shutdown"}).Draw(t, "kind"),
			Raw:  rapid.SampledFrom([]int{0, 1, 15, 16, 17, 31, 32, 33, 48, 49, 50, 1000, 65507}).Draw(t, "raw"), Header: genHostileHeader(t),
			Src: rapid.SampledFrom(c18SrcClasses).Draw(t, "src"), Size: rapid.SampledFrom([]int{0, 1, 100, 1472, 9000, 65000, 65400, 65507}).Draw(t, "size"),
			Seed: rapid.Int64Range(1, 1<<40).Draw(t, "seed"), Key: rapid.IntRange(0, len(c.Keys)-1).Draw(t, "key"),
			Client: rapid.SampledFrom([]int{0, 0, 1, 2, 3}).Draw(t, "client")})
	}
	return c
}

func c18SrcIP(class string) string {
	c05Detect()
	switch class {
	case "v4-loopback":
		return "127.0.0.1"
	case "v6-loopback":
		if kit.HaveAddr("::1") {
			return "::1"
		}
	case "public-v4":
		return c05Local.control
	case "ula":
		for _, a := range c05Local.forbidden {
			if strings.HasPrefix(a, "fd") || strings.HasPrefix(a, "fc") {
				return a
			}
		}
	case "link-local-zoned":
		return c05Local.zoned
	}
	return ""
}

func runC18UDP(c C18UDP, info *kit.Info) *kit.Finding {
	defer kit.NoGC()() // leaked sockets must not be rescued by finalizers
	kit.InstallFakeDNS()
	panics0 := kit.Logs.PanicCount()
	baseline := map[string]bool{}
	for _, g := range kit.RepoGoroutines() {
		baseline[goroutineID(g)] = true
	}
	sock0 := kit.OpenSockets()
	ph := service.NewPacketHandler(time.Minute, kit.NewCipherList(c.Keys), nil, nil)
	ph.SetTargetIPValidator(kit.PermitAll)
	front, err := kit.ServeUDP("::", ph)
	if err != nil {
		if front, err = kit.ServeUDP("127.0.0.1", ph); err != nil {
			info.Skipped = err.Error()
			return nil
		}
	}
	shut := false
	var peers []*kit.UDPPeer
	mk := func(ip string) *kit.UDPPeer {
		p, err := kit.NewUDPPeer(ip, 0)
		if err != nil {
			return nil
		}
		peers = append(peers, p)
		return p
	}
	cl, tgt := mk("127.0.0.1"), mk("127.0.0.1")
	if cl == nil || tgt == nil {
		front.Close(time.Second)
		info.Skipped = "cannot bind peers"
		return nil
	}
	cleanup := func() {
		for _, p := range peers {
			p.Close()
		}
	}
	frontAddr := &net.UDPAddr{IP: net.IPv4(127, 0, 0, 1), Port: front.Addr.Port}
	key0 := c.Keys[0].Key()
	natPort := 0
	others := map[int]*kit.UDPPeer{}
	from := func(i int) *kit.UDPPeer {
		if i == 0 {
			return cl
		}
		if others[i] == nil {
			if others[i] = mk("127.0.0.1"); others[i] == nil {
				return cl
			}
			info.Class("udp:hostile-first-datagram-of-a-client")
		}
		return others[i]
	}
	good := func(when string, seed int64) *kit.Finding {
		tag := fmt.Sprintf("good-%d", seed)
		var d kit.Datagram
		ok := false
		for attempt := 0; attempt < 2 && !ok; attempt++ {
			cl.Send(kit.PackUDP(key0, kit.DetBytes(seed+int64(attempt), key0.SaltSize()), append(kit.SocksAddr("127.0.0.1", tgt.Addr.Port, false), tag...)), frontAddr)
			deadline := time.Now().Add(2 * time.Second)
			for time.Now().Before(deadline) && !ok {
				if d, ok = tgt.Pop(time.Until(deadline)); ok && string(d.Data) != tag {
					ok = false
				}
			}
		}
		if !ok {
			return kit.Violation("robust:others-affected", "%s: a well-formed datagram is no longer forwarded (the packet loop stopped?)", when)
		}
		natPort = d.From.Port
		return nil
	}
	for i, op := range c.Ops {
		info.Steps++
		if shut {
			break
		}
		info.Class("udp:" + op.Kind)
		switch op.Kind {
		case "raw":
			from(op.Client).Send(kit.DetBytes(op.Seed, op.Raw), frontAddr)
		case "plain":
			k := c.Keys[op.Key].Key()
			from(op.Client).Send(kit.PackUDP(k, kit.DetBytes(op.Seed, k.SaltSize()), op.Header.bytes(tgt.Addr.Port, op.Seed)), frontAddr)
			info.NonTrivial = true
		case "good":
			if f := good(fmt.Sprintf("op %d", i), op.Seed); f != nil {
				cleanup()
				front.Close(time.Second)
				return f
			}
		case "reply":
			ip := c18SrcIP(op.Src)
			if ip == "" || natPort == 0 {
				info.Class("reply-skipped:" + op.Src)
				continue
			}
			sp := mk(ip)
			if sp == nil {
				continue
			}
			to := &net.UDPAddr{IP: sp.Addr.IP, Zone: sp.Addr.Zone, Port: natPort}
			if sp.Addr.IP.To4() != nil {
				to = &net.UDPAddr{IP: net.IPv4(127, 0, 0, 1), Port: natPort}
				if !sp.Addr.IP.IsLoopback() {
					to.IP = sp.Addr.IP
				}
			}
			sp.Send(kit.DetBytes(op.Seed, op.Size), to)
			info.Class("reply-from:" + op.Src)
			if op.Src != "v4-loopback" {
				info.NonTrivial = true
			}
			// let the server process it before the next operation (replies it cannot relay produce nothing):
			// keeps a failing case failing when it is replayed or minimised
			cl.Pop(30 * time.Millisecond)
		case "shutdown":
			shut = true
			info.NonTrivial = true
		}
	}
	if !shut {
		if f := good("after the hostile datagrams", 424242); f != nil {
			cleanup()
			front.Close(time.Second)
			return f
		}
	}
	if !front.Close(4 * time.Second) {
		cleanup()
		return kit.Violation("robust:handle-did-not-return", "PacketHandler.Handle did not return within 4 s of closing its socket")
	}
	cleanup()
	if n := kit.Logs.PanicCount(); n > panics0 {
		return kit.Violation("robust:panic-recovered", "the server logged %d recovered panic(s): %v", n-panics0, kit.Logs.PanicsSince(panics0))
	}
	return leakCheck(baseline, sock0, "the UDP case")
}

func TestC18_UDP(t *testing.T) {
	p := kit.Prop[C18UDP]{ID: "C18", Name: "UDP", Quick: 2400, Thorough: 300000, Gen: genC18UDP, Run: runC18UDP, Journal: true}
	p.Execute(t)
}

var _ sync.Mutex

// ---- serving stops only after its handlers -------------------------------------------------------
// The listener closes right after it has handed out a connection (a shutdown that lands between two accepts):
// StreamServe must not return before the handler of every connection it accepted has returned.

type C18Stop struct {
	Backlog    int `json:"backlog"`     // connections waiting before serving starts
	CloseAfter int `json:"close_after"` // the listener is closed as soon as this many were accepted
	HandleMs   int `json:"handle_ms"`
	// bit i set: the handler of the i-th accepted connection fails (panics) instead of returning; serving recovers
	// from that, and the connection's socket is closed all the same
	PanicMask int `json:"panic_mask,omitempty"`
}

func genC18Stop(t *rapid.T) C18Stop {
	c := C18Stop{Backlog: rapid.IntRange(1, 6).Draw(t, "backlog"), HandleMs: rapid.SampledFrom([]int{1, 5, 20}).Draw(t, "handleMs")}
	c.CloseAfter = rapid.IntRange(1, c.Backlog).Draw(t, "closeAfter")
	if rapid.Bool().Draw(t, "panics") {
		c.PanicMask = rapid.IntRange(1, 63).Draw(t, "panicMask")
	}
	return c
}

func runC18Stop(c C18Stop, info *kit.Info) *kit.Finding {
	l, err := kit.ListenTCPLow(&net.TCPAddr{IP: net.IPv4(127, 0, 0, 1)})
	if err != nil {
		info.Skipped = err.Error()
		return nil
	}
	defer l.Close()
	var clients []net.Conn
	defer func() {
		for _, cn := range clients {
			cn.Close()
		}
	}()
	for i := 0; i < c.Backlog; i++ {
		cn, err := kit.DialTCP(l.Addr().String(), 3*time.Second)
		if err != nil {
			info.Skipped = err.Error()
			return nil
		}
		clients = append(clients, cn)
	}
	var accepted, finished atomic.Int32
	var held []*net.TCPConn // keeps the server-side conns referenced, so that no finalizer closes a forgotten socket
	var heldMu sync.Mutex
	defer func() {
		heldMu.Lock()
		for _, cn := range held {
			cn.Close()
		}
		heldMu.Unlock()
	}()
	accept := func() (transport.StreamConn, error) {
		cn, err := l.AcceptTCP()
		if err != nil {
			return nil, err
		}
		heldMu.Lock()
		held = append(held, cn)
		heldMu.Unlock()
		if int(accepted.Add(1)) == c.CloseAfter {
			l.Close()
		}
		return cn, nil
	}
	done := make(chan int32, 1)
	go func() {
		var nth atomic.Int32
		service.StreamServe(accept, func(ctx context.Context, conn transport.StreamConn) {
			i := int(nth.Add(1)) - 1
			time.Sleep(time.Duration(c.HandleMs) * time.Millisecond)
			finished.Add(1)
			if c.PanicMask&(1<<i) != 0 {
				panic(fmt.Sprintf("generated handler failure on connection %d", i))
			}
		})
		done <- finished.Load()
	}()
	select {
	case atReturn := <-done:
		if a := accepted.Load(); atReturn < a {
			return kit.Violation("robust:serving-stopped-before-handlers", "the listener closed right after connection %d was accepted; StreamServe returned when %d of %d accepted connections had been handled to the end (a handler was still running, or had not even started)", c.CloseAfter, atReturn, a)
		}
	case <-time.After(5 * time.Second):
		return kit.Violation("robust:handle-did-not-return", "StreamServe did not return within 5 s of its listener closing")
	}
	// serving is over and every handler has returned (or failed): every socket it accepted is closed, so every
	// client sees its connection end (those left in the backlog of the closed listener are reset by the kernel)
	for i, cn := range clients {
		cn.SetReadDeadline(time.Now().Add(3 * time.Second))
		_, err := cn.Read(make([]byte, 1))
		var ne net.Error
		if err == nil || (errors.As(err, &ne) && ne.Timeout()) {
			how := "returned"
			if c.PanicMask&(1<<i) != 0 {
				how = "failed (panicked)"
			}
			return kit.Violation("robust:socket-left-open", "StreamServe has returned, the handler of connection %d has %s, and the connection is still open 3 s later: its socket was never closed (%d accepted, %+v)", i, how, accepted.Load(), c)
		}
	}
	if c.PanicMask != 0 {
		info.Class("handler_panics")
	}
	info.NonTrivial, info.Steps = true, c.Backlog
	return nil
}

func TestC18_ServeStop(t *testing.T) {
	p := kit.Prop[C18Stop]{ID: "C18", Name: "ServeStop", Quick: 120, Thorough: 20000, Gen: genC18Stop, Run: runC18Stop}
	p.Execute(t)
}
