package props

// C15 (in-memory conns) — the byte counters and the probe byte count equal what the connection carried, whatever
// way the client connection's Read hands the bytes over: in reads of any size, and with the final bytes delivered
// together with io.EOF (which io.Reader allows and transport.StreamConn implementations other than *net.TCPConn do).

import (
	"bytes"
	"context"
	"fmt"
	"net"
	"testing"
	"time"

	"github.com/Jigsaw-Code/outline-ss-server/service"
	"pgregory.net/rapid"
	"verif/harness/kit"
)

type C15Mem struct {
	Key         kit.KeySpec `json:"key"`
	Seed        int64       `json:"seed"`
	Valid       bool        `json:"valid"`
	Payload     int         `json:"payload"`
	Resp        int         `json:"resp"`
	Garbage     int         `json:"garbage,omitempty"` // length of an invalid stream
	ReadMax     int         `json:"read_max"`          // the client conn returns at most this many bytes per Read
	EOFWithData bool        `json:"eof_with_data"`     // the last bytes come with io.EOF in one Read
	// the same two for the target's conn
	TgtReadMax     int  `json:"tgt_read_max,omitempty"`
	TgtEOFWithData bool `json:"tgt_eof_with_data,omitempty"`
}

func genC15Mem(t *rapid.T) C15Mem {
	c := C15Mem{Key: kit.KeySpec{ID: "mem-key", Cipher: rapid.SampledFrom(kit.AllCiphers).Draw(t, "cipher"), Secret: "mem-secret"}, Seed: rapid.Int64Range(1, 1<<40).Draw(t, "seed"),
		Valid: rapid.IntRange(0, 3).Draw(t, "valid") > 0, EOFWithData: rapid.Bool().Draw(t, "eofwithdata"),
		ReadMax: rapid.SampledFrom([]int{1, 7, 50, 51, 316, 1000, 16384, 70000}).Draw(t, "readmax")}
	if c.Valid {
		c.TgtReadMax = rapid.SampledFrom([]int{0, 1, 100, 16383, 16384, 40000}).Draw(t, "tgtReadMax")
		c.TgtEOFWithData = rapid.Bool().Draw(t, "tgtEOFWithData")
		c.Payload = rapid.OneOf(rapid.IntRange(0, 3000), rapid.SampledFrom([]int{0, 1, 16383, 16384, 50000})).Draw(t, "payload")
		c.Resp = rapid.OneOf(rapid.IntRange(0, 3000), rapid.SampledFrom([]int{0, 1, 16383, 16384, 50000})).Draw(t, "resp")
	} else {
		c.Garbage = rapid.OneOf(rapid.IntRange(0, 200), rapid.SampledFrom([]int{0, 49, 50, 51, 1000, 20000})).Draw(t, "garbage")
	}
	return c
}

func runC15Mem(c C15Mem, info *kit.Info) *kit.Finding {
	key := c.Key.Key()
	resp := kit.DetBytes(c.Seed+2, c.Resp)
	dialer := &kit.RecDialer{Response: func(string) ([]byte, error) { return resp, nil }, ReadMax: c.TgtReadMax, EOFWithData: c.TgtEOFWithData}
	h := service.NewStreamHandler(service.NewShadowsocksStreamAuthenticator(kit.NewCipherList([]kit.KeySpec{c.Key}), nil, nil, nil), 200*time.Millisecond)
	h.SetTargetDialer(dialer)
	var wire []byte
	payload := kit.DetBytes(c.Seed+1, c.Payload)
	if c.Valid {
		wire = kit.EncodeStream(key, kit.DetBytes(c.Seed, key.SaltSize()), append(kit.SocksAddrFor("192.0.2.99:80", false), payload...), nil)
	} else {
		wire = kit.DetBytes(c.Seed+3, c.Garbage)
	}
	conn := kit.NewMemConn(wire, &net.TCPAddr{IP: net.IPv4(203, 0, 113, 5), Port: 4321})
	conn.ReadMax, conn.EOFWithData = c.ReadMax, c.EOFWithData
	rec := kit.NewRecTCPConn()
	done := make(chan struct{})
	go func() { h.Handle(context.Background(), conn, rec); close(done) }()
	select {
	case <-done:
	case <-time.After(10 * time.Second):
		conn.Close()
		<-done
		return kit.Violation("mem:stuck", "the handler did not return within 10 s for %+v", c)
	}
	desc := fmt.Sprintf("client stream of %d bytes read in pieces of at most %d, last piece together with io.EOF = %v", len(wire), c.ReadMax, c.EOFWithData)
	closed, ok := rec.Closed()
	if !ok {
		return kit.Violation("mem:no-close", "no close report (%s)", desc)
	}
	info.Steps = 1
	info.NonTrivial = c.EOFWithData || c.TgtEOFWithData || c.ReadMax < 51
	if !c.Valid {
		var probe *kit.TCPEvent
		for _, e := range rec.Events() {
			if e.Kind == "probe" {
				e := e
				probe = &e
			}
		}
		if probe == nil {
			return kit.Violation("mem:no-probe", "authentication failed and no probe was reported (%s)", desc)
		}
		if probe.Bytes != int64(len(wire)) {
			return kit.Violation("mem:probe-bytes", "the probe report carries %d bytes, the server received %d (%s)", probe.Bytes, len(wire), desc)
		}
		if closed.Data.ClientProxy != int64(len(wire)) {
			return kit.Violation("mem:bytes", "client->proxy reported as %d, the server received %d (%s; status %s)", closed.Data.ClientProxy, len(wire), desc, closed.Status)
		}
		return nil
	}
	if closed.Status != "OK" {
		return kit.Violation("mem:status", "a connection that ran to completion was closed with status %s (%s)", closed.Status, desc)
	}
	tgtGot := 0
	if len(dialer.Conns) == 1 {
		tgtGot = len(dialer.Conns[0].Output())
	}
	d := closed.Data
	want := [4]int64{int64(len(wire)), int64(tgtGot), int64(len(resp)), int64(len(conn.Output()))}
	got := [4]int64{d.ClientProxy, d.ProxyTarget, d.TargetProxy, d.ProxyClient}
	if tgtGot != len(payload) {
		return kit.Violation("mem:relay", "the target received %d bytes of %d (%s)", tgtGot, len(payload), desc)
	}
	// what went to the client is the target's stream, whole (the relay must not drop bytes that arrive with the EOF)
	dec := kit.NewStreamDecoder(key)
	dec.Feed(conn.Output())
	if dec.Err != nil || !bytes.Equal(dec.Plain, resp) {
		return kit.Violation("mem:relay-to-client", "the target sent %d bytes (reads of at most %d, last bytes with io.EOF = %v); the client can decrypt %d bytes of them (error %v)", len(resp), c.TgtReadMax, c.TgtEOFWithData, len(dec.Plain), dec.Err)
	}
	if got != want {
		return kit.Violation("mem:bytes", "reported [client->proxy proxy->target target->proxy proxy->client] = %v, carried %v (%s)", got, want, desc)
	}
	return nil
}

func TestC15_Mem(t *testing.T) {
	p := kit.Prop[C15Mem]{ID: "C15", Name: "Mem", Quick: 1500, Thorough: 150000, Gen: genC15Mem, Run: runC15Mem}
	p.Execute(t)
}

// C02 on the same in-memory conns: whatever way the two conns hand their bytes over (reads of any size, the last
// bytes together with io.EOF), the target receives exactly the client's payload and the client can decrypt exactly
// the target's stream. Only the relay clauses are judged here; the counters belong to C15.
func genC02Mem(t *rapid.T) C15Mem {
	c := genC15Mem(t)
	for !c.Valid {
		c = genC15Mem(t)
	}
	return c
}

func runC02Mem(c C15Mem, info *kit.Info) *kit.Finding {
	f := runC15Mem(c, info)
	if f != nil && (f.Signature == "mem:relay" || f.Signature == "mem:relay-to-client" || f.Signature == "mem:stuck") {
		return f
	}
	return nil
}

func TestC02_Mem(t *testing.T) {
	p := kit.Prop[C15Mem]{ID: "C02", Name: "Mem", Quick: 1500, Thorough: 150000, Gen: genC02Mem, Run: runC02Mem}
	p.Execute(t)
}
