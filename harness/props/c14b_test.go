package props

// C14 (deadline algebra) — generated histories of writes (DNS / non-DNS), replies and pauses on one
// NAT entry with a fake outbound socket inside the in-package executor (package service), which
// records every SetReadDeadline. Oracle: after each write the deadline is at least t0+timeout
// (17 s for port 53) and never moves earlier, except the one permitted fast close.

import (
	"encoding/json"
	"fmt"
	"sync"
	"testing"
	"time"

	"pgregory.net/rapid"
	"verif/harness/kit"
)

type C14Op struct {
	Kind      string `json:"kind"` // write | reply | pause
	DNS       bool   `json:"dns"`
	V6        bool   `json:"v6"` // the DNS server / target has an IPv6 address
	Ms        int    `json:"ms"`
	Fail      bool   `json:"fail"`       // write: the outbound send fails (unreachable network, port 0, ...)
	FailRelay bool   `json:"fail_relay"` // reply: sending it on to the client fails (too large for the client's path, ...): that loses this reply, nothing else
	Hold      bool   `json:"hold"`       // reply: still being relayed to the client while the next operation (a write) happens
}

type C14Hist struct {
	TimeoutMs int     `json:"timeout_ms"`
	Ops       []C14Op `json:"ops"`
}

func genC14Hist(t *rapid.T) C14Hist {
	h := C14Hist{TimeoutMs: rapid.SampledFrom([]int{2000, 5000, 16999, 17000, 17001, 30000, 300000}).Draw(t, "timeout")} // >= 2 s: the fake socket treats a deadline that is already due when set as expiry (fast close); a tiny timeout would look the same under scheduling delay
	n := rapid.IntRange(1, 14).Draw(t, "nops")
	writes := 0
	firstDNS := false
	for i := 0; i < n; i++ {
		op := C14Op{Kind: rapid.SampledFrom([]string{"write", "write", "write", "reply", "reply", "pause"}).Draw(t, "kind"), DNS: rapid.Bool().Draw(t, "dns"), V6: rapid.IntRange(0, 2).Draw(t, "v6") == 0}
		if op.Kind == "pause" {
			op.Ms = rapid.SampledFrom([]int{0, 1, 5, 20}).Draw(t, "ms")
		}
		if op.Kind == "write" {
			op.Fail = rapid.IntRange(0, 5).Draw(t, "fail") == 0
		}
		if op.Kind == "reply" {
			op.FailRelay = rapid.IntRange(0, 5).Draw(t, "failRelay") == 0
		}
		if op.Kind == "reply" && writes == 0 {
			continue // nothing was sent yet: no target knows the outbound address
		}
		h.Ops = append(h.Ops, op)
		if op.Kind == "write" {
			if writes == 0 {
				firstDNS = op.DNS
			}
			writes++
		}
		if op.Kind == "reply" && i+1 < n && rapid.IntRange(0, 2).Draw(t, "hold") == 0 {
			// the client's next datagram arrives while this reply is still on its way to the client
			h.Ops[len(h.Ops)-1].Hold = true
			w := C14Op{Kind: "write", DNS: rapid.Bool().Draw(t, "dns2"), V6: rapid.IntRange(0, 2).Draw(t, "v62") == 0, Fail: rapid.IntRange(0, 5).Draw(t, "fail2") == 0}
			h.Ops = append(h.Ops, w)
			writes++
			i++
			continue
		}
		if op.Kind == "reply" && op.DNS && writes == 1 && firstDNS {
			break // fast close: the association ends here
		}
	}
	return h
}

type natDeadline struct {
	AtNs    int64 `json:"at_ns"`
	ValueNs int64 `json:"value_ns"`
	Op      int   `json:"op"`
}

type natResp struct {
	OK        bool          `json:"ok"`
	Err       string        `json:"err"`
	Deadlines []natDeadline `json:"deadlines"`
	Ops       []struct {
		T0Ns int64 `json:"t0_ns"`
		T1Ns int64 `json:"t1_ns"`
	} `json:"ops"`
	Removed   int  `json:"removed"`
	Closed    bool `json:"closed"`
	MapEmpty  bool `json:"map_empty"`
	Replies   int  `json:"replies_relayed"`
	Returned  bool `json:"copy_returned"`
	GoneEarly bool `json:"gone_early"`
}

var natExec struct {
	sync.Mutex
	ex *kit.Exec
}

func natDo(h C14Hist) (*natResp, error) {
	natExec.Lock()
	defer natExec.Unlock()
	if natExec.ex == nil {
		ex, err := kit.StartExec("VERIF_BIN_INPKG_SERVICE", "TestVerifNATExecutor")
		if err != nil {
			return nil, err
		}
		natExec.ex = ex
	}
	req, _ := json.Marshal(h)
	line, err := natExec.ex.DoRaw(req, 30*time.Second)
	if err != nil {
		natExec.ex.Kill()
		natExec.ex = nil
		return nil, err
	}
	var r natResp
	if err := json.Unmarshal(line, &r); err != nil {
		return nil, err
	}
	return &r, nil
}

func runC14Hist(h C14Hist, info *kit.Info) *kit.Finding {
	r, err := natDo(h)
	if err != nil {
		if err == kit.ErrExecDied {
			return kit.Violation("nat:executor-died", "the NAT executor process died while running the history")
		}
		info.Skipped = err.Error()
		return nil
	}
	if !r.OK {
		return kit.Violation("nat:executor-error", "executor: %s", r.Err)
	}
	tau := func(op C14Op) int64 {
		if op.DNS {
			return int64(17 * time.Second)
		}
		return int64(time.Duration(h.TimeoutMs) * time.Millisecond)
	}
	writes, replies, relayed := 0, 0, 0
	firstDNS, hasDNS, hasPlain, fastCandidate := false, false, false, false
	fastIdx := -1
	latest := int64(0)
	cur := int64(-1) // current deadline (ns since start), -1: never set
	di := 0
	for i, op := range h.Ops {
		var calls []natDeadline
		for di < len(r.Deadlines) && r.Deadlines[di].Op == i {
			calls = append(calls, r.Deadlines[di])
			di++
		}
		switch op.Kind {
		case "write":
			if writes == 0 {
				firstDNS = op.DNS
			}
			writes++
			hasDNS = hasDNS || op.DNS
			hasPlain = hasPlain || !op.DNS
			// the latest instant any write so far entitles the association to
			latest = max(latest, r.Ops[i].T1Ns+tau(op))
			for _, c := range calls {
				if c.ValueNs <= cur {
					return kit.Violation("nat:deadline-moved-earlier", "op %d (write dns=%v): deadline set to %v, it was %v before", i, op.DNS, time.Duration(c.ValueNs), time.Duration(cur))
				}
				if c.ValueNs > latest {
					return kit.Violation("nat:deadline-too-late", "op %d (write dns=%v): deadline %v is later than any write so far allows (%v)", i, op.DNS, time.Duration(c.ValueNs), time.Duration(latest))
				}
				cur = c.ValueNs
			}
			if cur < r.Ops[i].T0Ns+tau(op) {
				return kit.Violation("nat:deadline-too-early", "op %d (write dns=%v): after the write the deadline is %v, less than the start of the write (%v) + its timeout (%v)", i, op.DNS, time.Duration(cur), time.Duration(r.Ops[i].T0Ns), time.Duration(tau(op)))
			}
		case "reply":
			replies++
			if !op.FailRelay {
				relayed++
			}
			allowed := op.DNS && writes == 1 && firstDNS && replies == 1
			if allowed {
				fastCandidate, fastIdx = true, i
				if len(calls) != 1 || calls[0].ValueNs > calls[0].AtNs {
					return kit.Violation("nat:no-fast-close", "op %d: the only traffic was one DNS query and this is the first response from a DNS server, but the deadline was not set to now (calls %+v)", i, calls)
				}
				cur = calls[0].ValueNs
			} else if len(calls) > 0 {
				return kit.Violation("nat:deadline-moved-earlier", "op %d (reply dns=%v after %d writes, first write dns=%v, reply #%d): the deadline was changed to %v (was %v) — fast close is only allowed for a single DNS query", i, op.DNS, writes, firstDNS, replies, time.Duration(calls[0].ValueNs), time.Duration(cur))
			}
		default:
			if len(calls) > 0 {
				return kit.Violation("nat:unexpected-deadline-change", "op %d (%s): deadline changed to %v", i, op.Kind, time.Duration(calls[0].ValueNs))
			}
		}
	}
	fastClosed := false // a fast close that nothing undid: the history ends with it
	if fastCandidate && fastIdx == len(h.Ops)-1 {
		fastClosed = true
	}
	if r.GoneEarly && !fastClosed {
		return kit.Violation("nat:removed-before-deadline", "the association was torn down although its deadline (%v after start) had not passed and no fast close applies (history of %d ops, last op %+v)", time.Duration(cur), len(h.Ops), h.Ops[len(h.Ops)-1])
	}
	if fastCandidate && !fastClosed {
		info.Class("fast-close-overtaken-by-a-write")
	}
	if di < len(r.Deadlines) {
		return kit.Violation("nat:unexpected-deadline-change", "deadline changed during expiry: %+v", r.Deadlines[di:])
	}
	if !r.Returned || !r.MapEmpty {
		return kit.Violation("nat:not-removed", "after the outbound socket timed out the entry is still in the table (returned=%v)", r.Returned)
	}
	if r.Removed != 1 {
		return kit.Violation("nat:removal-count", "removal reported %d times, want exactly once", r.Removed)
	}
	if !r.Closed {
		return kit.Violation("nat:socket-not-closed", "the outbound socket was not closed after expiry")
	}
	if r.Replies != relayed {
		return kit.Violation("nat:reply-lost", "%d replies injected (%d of them unsendable to the client), %d relayed to the client", replies, replies-relayed, r.Replies)
	}
	info.NonTrivial = hasDNS && hasPlain || fastCandidate
	info.Steps = len(h.Ops)
	info.Class(fmt.Sprintf("fast-close:%v", fastCandidate), fmt.Sprintf("mixed:%v", hasDNS && hasPlain))
	return nil
}

func TestC14_Deadlines(t *testing.T) {
	p := kit.Prop[C14Hist]{ID: "C14", Name: "Deadlines", Quick: 4000, Thorough: 400000, Gen: genC14Hist, Run: runC14Hist}
	p.Execute(t)
	natExec.Lock()
	if natExec.ex != nil {
		natExec.ex.Kill()
		natExec.ex = nil
	}
	natExec.Unlock()
}
