package props

// C14 (life cycle, real sockets, real time) — UDP associations live as long as promised and are reclaimed.
//
// One real PacketHandler with a short NAT timeout; a batch of concurrent clients, each with a
// generated script of DNS (port 53 on 127.0.0.53) and non-DNS datagrams, replies and idle
// periods. Lower bounds ("alive until") are measured from client-side instants taken before the
// send, so scheduling delay can only make the code look better. Upper bounds are generous.

import (
	"bytes"
	"fmt"
	"net"
	"os"
	"strings"
	"sync"
	"testing"
	"time"

	"github.com/Jigsaw-Code/outline-ss-server/service"
	"pgregory.net/rapid"
	"verif/harness/kit"
)

type C14Client struct {
	Script string `json:"script"` // plain | dns-single | dns-multi | mixed | dns-then-plain | plain-reply53 | recreate
	Sends  int    `json:"sends"`
	GapMs  int    `json:"gap_ms"`
	Delay  int    `json:"dns_delay_ms"`
}

type C14Batch struct {
	TimeoutMs int         `json:"timeout_ms"`
	Clients   []C14Client `json:"clients"`
	Long      bool        `json:"long"` // thorough: hold DNS associations for 16.5 s
	Seed      int64       `json:"seed"`
}

func genC14(maxClients int, long bool) func(t *rapid.T) C14Batch {
	return func(t *rapid.T) C14Batch {
		b := C14Batch{TimeoutMs: rapid.SampledFrom([]int{300, 400, 600}).Draw(t, "timeout"), Seed: rapid.Int64Range(1, 1<<40).Draw(t, "seed"), Long: long}
		n := rapid.IntRange(4, maxClients).Draw(t, "nclients")
		for i := 0; i < n; i++ {
			b.Clients = append(b.Clients, C14Client{
				Script: rapid.SampledFrom([]string{"plain", "plain", "dns-single", "dns-single", "dns-multi", "mixed", "dns-then-plain", "plain-reply53", "recreate", "unsendable", "otherkey"}).Draw(t, "script"),
				Sends:  rapid.IntRange(1, 4).Draw(t, "sends"), GapMs: rapid.SampledFrom([]int{0, 10, 60, 120}).Draw(t, "gap"), Delay: rapid.SampledFrom([]int{0, 0, 30}).Draw(t, "delay")})
		}
		return b
	}
}

type c14Env struct {
	front   *kit.UDPFront
	met     *kit.RecService
	tgt     *kit.UDPPeer // non-DNS target
	dns     *kit.UDPPeer // 127.0.0.53:53
	dns2    *kit.UDPPeer // another port-53 address (stranger)
	key     *kit.Key
	key2    *kit.Key // another configured key (script otherkey)
	tau     time.Duration
	dnsMu   sync.Mutex
	fromDNS map[string]chan kit.Datagram // demux of datagrams arriving at the DNS socket by payload tag
}

const dnsTau = 17 * time.Second

func (e *c14Env) send(cl *kit.UDPPeer, to *net.UDPAddr, tag string, seed int64) {
	plain := append(kit.SocksAddr(to.IP.String(), to.Port, false), tag...)
	cl.Send(kit.PackUDP(e.key, kit.DetBytes(seed, e.key.SaltSize()), plain), &net.UDPAddr{IP: net.IPv4(127, 0, 0, 1), Port: e.front.Addr.Port})
}

// waitAt waits for a datagram with this tag at peer p (targets are shared by all clients of the batch).
type tagMux struct {
	mu   sync.Mutex
	seen map[string]kit.Datagram
	p    *kit.UDPPeer
}

func (m *tagMux) wait(tag string, d time.Duration) (kit.Datagram, bool) {
	deadline := time.Now().Add(d)
	for {
		m.mu.Lock()
		for _, g := range m.p.Drain() {
			m.seen[string(g.Data)] = g
		}
		g, ok := m.seen[tag]
		if ok {
			delete(m.seen, tag)
		}
		m.mu.Unlock()
		if ok {
			return g, true
		}
		if time.Now().After(deadline) {
			return kit.Datagram{}, false
		}
		time.Sleep(300 * time.Microsecond)
	}
}

func runC14(b C14Batch, info *kit.Info) *kit.Finding {
	// port 53 on loopback addresses private to this process (isDNS only looks at the port), so that shards and
	// checks running concurrently do not fight over one address
	pid := os.Getpid()
	dnsIP := fmt.Sprintf("127.%d.%d.53", (pid/250)%250+1, pid%250+1)
	dnsIP2 := fmt.Sprintf("127.%d.%d.54", (pid/250)%250+1, pid%250+1)
	if !kit.HaveAddr(dnsIP) {
		info.Skipped = "cannot bind " + dnsIP
		return nil
	}
	ks := kit.KeySpec{ID: "k", Cipher: kit.Chacha, Secret: "nat-secret"}
	ks2 := kit.KeySpec{ID: "k2", Cipher: kit.AES256, Secret: "other-nat-secret"}
	e := &c14Env{met: &kit.RecService{}, key: ks.Key(), key2: ks2.Key(), tau: time.Duration(b.TimeoutMs) * time.Millisecond}
	baseG := len(kit.RepoGoroutines())
	baseS := kit.OpenSockets()
	ph := service.NewPacketHandler(e.tau, kit.NewCipherList([]kit.KeySpec{ks, ks2}), e.met, nil)
	ph.SetTargetIPValidator(kit.PermitAll)
	var err error
	if e.front, err = kit.ServeUDP("127.0.0.1", ph); err != nil {
		info.Skipped = err.Error()
		return nil
	}
	frontClosed := false
	defer func() {
		if !frontClosed {
			e.front.Close(2 * time.Second)
		}
	}()
	if e.tgt, err = kit.NewUDPPeer("127.0.0.1", 0); err != nil {
		info.Skipped = err.Error()
		return nil
	}
	defer e.tgt.Close()
	if e.dns, err = kit.NewUDPPeer(dnsIP, 53); err != nil {
		info.Skipped = "cannot bind port 53: " + err.Error()
		return nil
	}
	defer e.dns.Close()
	if e.dns2, err = kit.NewUDPPeer(dnsIP2, 53); err != nil {
		info.Skipped = "cannot bind port 53: " + err.Error()
		return nil
	}
	defer e.dns2.Close()
	tgtMux := &tagMux{seen: map[string]kit.Datagram{}, p: e.tgt}
	dnsMux := &tagMux{seen: map[string]kit.Datagram{}, p: e.dns}

	results := make([]*kit.Finding, len(b.Clients))
	var wg sync.WaitGroup
	for i, spec := range b.Clients {
		wg.Add(1)
		go func(i int, spec C14Client) {
			defer wg.Done()
			results[i] = c14Client(e, b, i, spec, tgtMux, dnsMux)
		}(i, spec)
	}
	wg.Wait()
	for i, f := range results {
		info.Class("script:" + b.Clients[i].Script)
		if f != nil {
			return f
		}
	}
	// Shutting the packet listener down expires all remaining associations promptly.
	live := 0
	for _, r := range e.met.UDPAssocs() {
		if r.Removed() == 0 {
			live++
		}
	}
	frontClosed = true
	if !e.front.Close(3 * time.Second) {
		return kit.Violation("nat:handle-did-not-return", "Handle did not return within 3 s of closing the packet listener (%d live associations)", live)
	}
	ok := kit.WaitFor(3*time.Second, func() bool {
		for _, r := range e.met.UDPAssocs() {
			if r.Removed() == 0 {
				return false
			}
		}
		return true
	})
	if !ok {
		return kit.Violation("nat:not-reclaimed-on-shutdown", "%d associations were alive at shutdown; 3 s later not all are reported removed", live)
	}
	for _, r := range e.met.UDPAssocs() {
		if n := r.Removed(); n != 1 {
			return kit.Violation("nat:removal-count", "association of %s reported removed %d times", r.Client, n)
		}
	}
	var gl []string
	okRes := kit.WaitFor(3*time.Second, func() bool {
		gl = kit.RepoGoroutines()
		return len(gl) <= baseG && kit.OpenSockets() <= baseS+3 // +3: the harness' own target sockets still open
	})
	if !okRes {
		st := ""
		if len(gl) > baseG {
			st = gl[len(gl)-1]
		}
		return kit.Violation("nat:resources-left", "3 s after shutdown: %d goroutines of the server (baseline %d), %d sockets (baseline %d+3)\n%s", len(gl), baseG, kit.OpenSockets(), baseS, st)
	}
	info.NonTrivial = true
	if live > 0 {
		info.Class("shutdown-with-live-associations")
	}
	info.Steps = len(b.Clients)
	return nil
}

func c14Client(e *c14Env, b C14Batch, i int, spec C14Client, tgtMux, dnsMux *tagMux) *kit.Finding {
	cl, err := kit.NewUDPPeer("127.0.0.1", 0)
	if err != nil {
		return nil
	}
	defer cl.Close()
	me := cl.Addr.String()
	tag := func(s string, k int) string { return fmt.Sprintf("%s-c%d-%d-%d", s, i, k, b.Seed%1000) }
	seed := b.Seed + int64(i)*1_000_003
	assocOf := func() *kit.RecUDPAssoc {
		var last *kit.RecUDPAssoc
		for _, r := range e.met.UDPAssocs() {
			if r.Client == me {
				last = r
			}
		}
		return last
	}
	natInode := "" // inode of the association's outbound socket, learnt when a target first sees its source port
	// alive: a datagram sent by `from` to the association's outbound address reaches the client
	alive := func(from *kit.UDPPeer, natSrc *net.UDPAddr, what string, wait time.Duration) bool {
		body := "probe-" + what + tag("p", 0)
		from.Send([]byte(body), natSrc)
		deadline := time.Now().Add(wait)
		for time.Now().Before(deadline) {
			d, ok := cl.Pop(time.Until(deadline))
			if !ok {
				return false
			}
			if _, plain, err := kit.UnpackUDP(e.key, d.Data); err == nil && strings.HasSuffix(string(plain), body) {
				return true
			}
		}
		return false
	}
	expectRemovedBy := func(r *kit.RecUDPAssoc, natSrc *net.UDPAddr, by time.Duration, what string) *kit.Finding {
		if !kit.WaitFor(by, func() bool { return r.Removed() > 0 }) {
			return kit.Violation("nat:not-expired", "client %d (%s): association not removed %v after %s", i, spec.Script, by, what)
		}
		// the outbound socket is closed: its port has left the kernel's UDP table
		// (by inode: the port number may have been taken by another socket meanwhile, also of another process)
		if !kit.WaitFor(2*time.Second, func() bool { return !kit.UDPInodeBound(natInode) }) {
			return kit.Violation("nat:socket-not-closed", "client %d (%s): association removed but its outbound socket (port %d, inode %s) still exists 2 s later", i, spec.Script, natSrc.Port, natInode)
		}
		return nil
	}

	tgtAddr, dnsAddr := e.tgt.Addr, e.dns.Addr
	var lastPlain, lastDNS time.Time
	var natSrc *net.UDPAddr
	sendPlain := func(k int) *kit.Finding {
		t0 := time.Now()
		e.send(cl, tgtAddr, tag("plain", k), seed+int64(k))
		d, ok := tgtMux.wait(tag("plain", k), 3*time.Second)
		if !ok {
			return kit.Violation("nat:not-forwarded", "client %d (%s): datagram %d did not reach the target", i, spec.Script, k)
		}
		lastPlain, natSrc = t0, d.From
		if natInode == "" {
			natInode = kit.UDPSocketInode(natSrc.Port)
		}
		return nil
	}
	sendDNS := func(k int) *kit.Finding {
		t0 := time.Now()
		e.send(cl, dnsAddr, tag("dns", k), seed+100+int64(k))
		d, ok := dnsMux.wait(tag("dns", k), 3*time.Second)
		if !ok {
			return kit.Violation("nat:not-forwarded", "client %d (%s): DNS datagram %d did not reach the DNS server", i, spec.Script, k)
		}
		lastDNS, natSrc = t0, d.From
		if natInode == "" {
			natInode = kit.UDPSocketInode(natSrc.Port)
		}
		return nil
	}
	gap := func() { time.Sleep(time.Duration(spec.GapMs) * time.Millisecond) }
	guard := e.tau * 35 / 100

	switch spec.Script {
	case "plain", "recreate", "otherkey":
		var r *kit.RecUDPAssoc
		for k := 0; k < spec.Sends; k++ {
			if f := sendPlain(k); f != nil {
				return f
			}
			if r == nil {
				r = assocOf()
			}
			if spec.Script == "otherkey" {
				// a datagram from the same client address under another configured key: whatever the server makes
				// of it, the association's promises stand and everything is reclaimed in the end
				plain := append(kit.SocksAddr(tgtAddr.IP.String(), tgtAddr.Port, false), tag("other", k)...)
				cl.Send(kit.PackUDP(e.key2, kit.DetBytes(seed+500+int64(k), e.key2.SaltSize()), plain), &net.UDPAddr{IP: net.IPv4(127, 0, 0, 1), Port: e.front.Addr.Port})
			}
			gap()
		}
		// still usable shortly before last send + timeout (sound: lastPlain was taken before the send)
		if wait := time.Until(lastPlain.Add(e.tau - guard)); wait > 0 {
			time.Sleep(wait)
		}
		if time.Now().Before(lastPlain.Add(e.tau - guard/2)) {
			alive(e.tgt, natSrc, "plain", guard/2)
		}
		// sound: both instants come from this process' monotonic clock, and lastPlain was taken before the send
		if at := r.RemovedAt(); !at.IsZero() && at.Before(lastPlain.Add(e.tau)) {
			return kit.Violation("nat:expired-early", "client %d (%s): association removed %v after its last datagram was sent, timeout is %v", i, spec.Script, at.Sub(lastPlain), e.tau)
		}
		if f := expectRemovedBy(r, natSrc, time.Until(lastPlain.Add(e.tau))+2*time.Second, "the last non-DNS datagram + timeout"); f != nil {
			return f
		}
		if spec.Script == "recreate" {
			if f := sendPlain(99); f != nil {
				return f
			}
			if r2 := assocOf(); r2 == r || r2.Removed() > 0 {
				return kit.Violation("nat:no-new-association", "client %d: a datagram after expiry did not create a new association", i)
			}
		}
	case "unsendable":
		// The first datagram authenticates and is allowed, but the outbound send fails (port 0): the association
		// exists and must still be reclaimed after the timeout although the client stays idle.
		t0 := time.Now()
		e.send(cl, &net.UDPAddr{IP: net.IPv4(127, 0, 0, 1), Port: 0}, tag("unsendable", 0), seed)
		var r *kit.RecUDPAssoc
		if !kit.WaitFor(2*time.Second, func() bool { r = assocOf(); return r != nil }) {
			return nil // no association was created for an unsendable first datagram: nothing to reclaim
		}
		if !kit.WaitFor(time.Until(t0.Add(e.tau))+2*time.Second, func() bool { return r.Removed() > 0 }) {
			return kit.Violation("nat:not-expired", "client %d (unsendable): the association created by a datagram whose outbound send failed is still not removed %v later (timeout %v): idle clients accumulate", i, time.Since(t0), e.tau)
		}
	case "dns-single":
		if f := sendDNS(0); f != nil {
			return f
		}
		r := assocOf()
		time.Sleep(time.Duration(spec.Delay) * time.Millisecond)
		if !alive(e.dns, natSrc, "dnsreply", 3*time.Second) {
			return kit.Violation("nat:reply-lost", "client %d (dns-single): the DNS response was not relayed", i)
		}
		// only traffic was one DNS query: closes right after the first response from a DNS server
		if f := expectRemovedBy(r, natSrc, 2*time.Second, "the first DNS response (fast close)"); f != nil {
			f.Signature = "nat:no-fast-close"
			return f
		}
	case "dns-multi", "mixed", "dns-then-plain":
		switch spec.Script {
		case "dns-multi":
			for k := 0; k < 2; k++ {
				if f := sendDNS(k); f != nil {
					return f
				}
			}
		case "mixed":
			if f := sendPlain(0); f != nil {
				return f
			}
			gap()
			if f := sendDNS(0); f != nil {
				return f
			}
		case "dns-then-plain":
			if f := sendDNS(0); f != nil {
				return f
			}
			gap()
			if f := sendPlain(0); f != nil {
				return f
			}
		}
		r := assocOf()
		// a DNS response now must not fast-close (more than one write happened)
		if !alive(e.dns, natSrc, "dnsreply", 3*time.Second) {
			return kit.Violation("nat:reply-lost", "client %d (%s): the DNS response was not relayed", i, spec.Script)
		}
		hold := 1500 * time.Millisecond
		if b.Long {
			hold = 16500 * time.Millisecond
		}
		if wait := time.Until(lastDNS.Add(hold)); wait > 0 {
			time.Sleep(wait)
		}
		// at least 17 s after the most recent DNS datagram, and the deadline never moves earlier
		stillThere := alive(e.tgt, natSrc, "late", time.Second)
		if at := r.RemovedAt(); !at.IsZero() && at.Before(lastDNS.Add(dnsTau)) {
			return kit.Violation("nat:expired-early", "client %d (%s): association removed %v after its most recent DNS datagram was sent (promised 17 s; configured timeout %v)", i, spec.Script, at.Sub(lastDNS), e.tau)
		}
		if !stillThere && r.Removed() == 0 && time.Since(lastDNS) < dnsTau-2*time.Second {
			// not removed, yet a datagram sent to its outbound address did not come through: ask twice more before judging
			if !alive(e.tgt, natSrc, "late2", 2*time.Second) && !alive(e.tgt, natSrc, "late3", 2*time.Second) && r.Removed() == 0 {
				return kit.Violation("nat:unusable-before-deadline", "client %d (%s): %v after its most recent DNS datagram the association is not reported removed but does not relay (3 attempts)", i, spec.Script, time.Since(lastDNS))
			}
		}
	case "plain-reply53":
		if f := sendPlain(0); f != nil {
			return f
		}
		r := assocOf()
		// a datagram from a port-53 address must not fast-close an association whose write was not DNS
		if !alive(e.dns2, natSrc, "stray53", 3*time.Second) {
			return kit.Violation("nat:reply-lost", "client %d (plain-reply53): datagram from a port-53 sender was not relayed", i)
		}
		if time.Since(lastPlain) < e.tau-guard {
			time.Sleep(time.Until(lastPlain.Add(e.tau - guard)))
			if at := r.RemovedAt(); !at.IsZero() && at.Before(lastPlain.Add(e.tau)) {
				return kit.Violation("nat:expired-early", "client %d (plain-reply53): association removed %v after a non-DNS datagram (timeout %v) following a datagram from port 53", i, at.Sub(lastPlain), e.tau)
			}
		}
		if f := expectRemovedBy(r, natSrc, time.Until(lastPlain.Add(e.tau))+2*time.Second, "the last non-DNS datagram + timeout"); f != nil {
			return f
		}
	}
	return nil
}

func TestC14_Lifecycle(t *testing.T) {
	p := kit.Prop[C14Batch]{ID: "C14", Name: "Lifecycle", Quick: 24, Thorough: 1000, Gen: genC14(24, false), Run: runC14}
	if kit.Tier() == "thorough" {
		p.Gen = genC14(64, false)
	}
	p.Execute(t)
}

// TestC14_Long holds DNS associations for 16.5 s (the 17 s promise): one batch per shard.
func TestC14_Long(t *testing.T) {
	p := kit.Prop[C14Batch]{ID: "C14", Name: "Long", Quick: 4, Thorough: 160, Gen: genC14(32, true), Run: runC14}
	p.Execute(t)
}

// ---- the assembled service ----------------------------------------------------------------------
// NewShadowsocksService with and without an explicit NAT timeout (the default is five minutes): a reply that
// comes a good while after the client's datagram, well inside the timeout, is still relayed.

type C14Svc struct {
	Cipher    string `json:"cipher"`
	TimeoutMs int    `json:"timeout_ms"` // 0: option not given
	DelayMs   int    `json:"delay_ms"`
	Seed      int64  `json:"seed"`
}

func genC14Svc(t *rapid.T) C14Svc {
	return C14Svc{Cipher: rapid.SampledFrom(kit.AllCiphers).Draw(t, "cipher"), TimeoutMs: rapid.SampledFrom([]int{0, 0, 300, 500, 3000, 60000}).Draw(t, "timeout"),
		DelayMs: rapid.SampledFrom([]int{0, 150, 400, 900}).Draw(t, "delay"), Seed: rapid.Int64Range(1, 1<<40).Draw(t, "seed")}
}

func runC14Svc(c C14Svc, info *kit.Info) *kit.Finding {
	c05Detect()
	if c05Local.control == "" {
		info.Skipped = "no local address that the default destination policy allows"
		return nil
	}
	ks := kit.KeySpec{ID: "user", Cipher: c.Cipher, Secret: "assembled-service"}
	met := &kit.RecService{}
	opts := []service.Option{service.WithCiphers(kit.NewCipherList([]kit.KeySpec{ks})), service.WithMetrics(met)}
	if c.TimeoutMs > 0 && c.TimeoutMs <= 1000 {
		c.DelayMs = min(c.DelayMs, c.TimeoutMs/3) // the reply comes inside the (short) configured timeout
	}
	if c.TimeoutMs > 0 {
		opts = append(opts, service.WithNatTimeout(time.Duration(c.TimeoutMs)*time.Millisecond))
	}
	svc, err := service.NewShadowsocksService(opts...)
	if err != nil {
		return kit.Violation("nat:service-setup", "%v", err)
	}
	pc, err := net.ListenUDP("udp", &net.UDPAddr{IP: net.IPv4(127, 0, 0, 1)})
	if err != nil {
		info.Skipped = err.Error()
		return nil
	}
	done := make(chan struct{})
	go func() { svc.HandlePacket(pc); close(done) }()
	defer func() { pc.Close(); <-done }()
	cl, err1 := kit.NewUDPPeer("127.0.0.1", 0)
	tgt, err2 := kit.NewUDPPeer(c05Local.control, 0)
	if err1 != nil || err2 != nil {
		info.Skipped = "cannot bind peers"
		return nil
	}
	defer cl.Close()
	defer tgt.Close()
	key := ks.Key()
	cl.Send(kit.PackUDP(key, kit.DetBytes(c.Seed, key.SaltSize()), append(kit.SocksAddr(c05Local.control, tgt.Addr.Port, false), "ping"...)), pc.LocalAddr().(*net.UDPAddr))
	d, ok := tgt.Pop(3 * time.Second)
	if !ok {
		return kit.Violation("nat:service-not-forwarding", "the assembled service did not forward a valid datagram to %v", tgt.Addr)
	}
	time.Sleep(time.Duration(c.DelayMs) * time.Millisecond)
	tgt.Send([]byte("pong"), d.From)
	r, ok := cl.Pop(3 * time.Second)
	if !ok {
		to := "the default of five minutes"
		if c.TimeoutMs > 0 {
			to = (time.Duration(c.TimeoutMs) * time.Millisecond).String()
		}
		return kit.Violation("nat:expired-early", "a reply sent %d ms after the client's datagram was not relayed although the NAT timeout is %s", c.DelayMs, to)
	}
	if _, plain, err := kit.UnpackUDP(key, r.Data); err != nil || !bytes.HasSuffix(plain, []byte("pong")) {
		return kit.Violation("nat:reply-corrupt", "reply does not decrypt to the target's payload (%v)", err)
	}
	if c.TimeoutMs > 0 && c.TimeoutMs <= 1000 {
		// a configured timeout is the one that applies: the idle association is torn down within bounded time
		to := time.Duration(c.TimeoutMs) * time.Millisecond
		if !kit.WaitFor(to+3*time.Second, func() bool { a := met.UDPAssocs(); return len(a) == 1 && a[0].Removed() == 1 }) {
			return kit.Violation("nat:not-expired", "the service was given a NAT timeout of %v; %v after the last traffic its association is still not reported removed", to, to+3*time.Second)
		}
		info.Class("configured-timeout-expires")
	}
	info.NonTrivial, info.Steps = c.DelayMs > 0 || c.TimeoutMs > 0, 2
	return nil
}

func TestC14_Service(t *testing.T) {
	p := kit.Prop[C14Svc]{ID: "C14", Name: "Service", Quick: 24, Thorough: 600, Gen: genC14Svc, Run: runC14Svc}
	p.Execute(t)
}
