package props

// C13 — listener management never deadlocks.
//
// G goroutines each run a generated list of ListenStream / ListenPacket / Close
// operations over 1..3 addresses on one ListenerManager, biased towards "the last
// handle of an address closes while another goroutine listens on it"; each case
// is repeated R times (fresh manager and ports each time). Oracle: every call
// returns within a watchdog bound and succeeds, and a final sequential
// Listen+Close on every address of the same manager succeeds.

import (
	"fmt"
	"io"
	"net"
	"regexp"
	"runtime"
	"sort"
	"strings"
	"sync"
	"sync/atomic"
	"testing"
	"time"

	"github.com/Jigsaw-Code/outline-ss-server/service"
	"pgregory.net/rapid"
	"verif/harness/kit"
)

type C13Op struct {
	Kind string `json:"kind"` // ls | lp | close | dial (H+1 clients connect to the stream address; nobody accepts them)
	Addr int    `json:"addr"`
	H    int    `json:"h"`
	// Spell: the address is written differently from the others' spelling of the same socket (1: port with a
	// leading zero, 2: "localhost"); such a listen may fail (the socket is taken) but it must return
	Spell int `json:"spell,omitempty"`
}

type C13Case struct {
	Addrs int       `json:"addrs"`
	Plans [][]C13Op `json:"plans"`
	Reps  int       `json:"reps"`
	// PreFail: before the concurrent phase, another socket holds address 0 while the manager is asked to listen on
	// it (stream and packet); the attempts fail, the socket goes away, and the plans then use the address as usual.
	PreFail bool `json:"pre_fail"`
	// Many > 0: before the plans, one manager opens a stream and a packet listener on this many distinct
	// addresses and then closes them all with no listen call in between (a shutdown, or a reload that only
	// drops listeners): every close returns and the manager can be listened on afterwards
	Many int `json:"many,omitempty"`
}

func genC13(t *rapid.T) C13Case {
	c := C13Case{Addrs: rapid.IntRange(1, 3).Draw(t, "addrs"), Reps: 50, PreFail: rapid.IntRange(0, 3).Draw(t, "prefail") == 0}
	g := rapid.IntRange(2, 12).Draw(t, "goroutines")
	// every third case has clients connecting to the stream addresses meanwhile (connections nobody accepts)
	clients := rapid.IntRange(0, 2).Draw(t, "clients") == 0
	if clients {
		c.Reps = 20
	}
	if rapid.IntRange(0, 9).Draw(t, "manyAddrs") == 0 {
		c.Many = rapid.IntRange(40, 160).Draw(t, "many")
	}
	for i := 0; i < g; i++ {
		n := rapid.IntRange(1, 8).Draw(t, "nops")
		var plan []C13Op
		for j := 0; j < n; j++ {
			// biased: listen then close immediately, so that last-close races with other listens
			kinds := []string{"ls", "ls", "lp", "close", "close", "close"}
			if clients {
				kinds = []string{"ls", "ls", "ls", "lp", "close", "close", "close", "close", "dial", "dial"}
			}
			k := rapid.SampledFrom(kinds).Draw(t, "kind")
			op := C13Op{Kind: k, Addr: rapid.IntRange(0, c.Addrs-1).Draw(t, "addr"), H: rapid.IntRange(0, 7).Draw(t, "h")}
			if (k == "ls" || k == "lp") && rapid.IntRange(0, 7).Draw(t, "respell") == 0 {
				op.Spell = rapid.IntRange(1, 2).Draw(t, "spell")
			}
			plan = append(plan, op)
		}
		c.Plans = append(c.Plans, plan)
	}
	return c
}

var frameRe = regexp.MustCompile(`service\.\(\*?([A-Za-z]+)\)\.([A-Za-z]+)`)

// deadlockSignature derives a signature from the goroutines blocked on a mutex inside listeners.go.
func deadlockSignature() (string, string) {
	buf := make([]byte, 4<<20)
	n := runtime.Stack(buf, true)
	sites := map[string]bool{}
	var dump []string
	for _, g := range strings.Split(string(buf[:n]), "\n\n") {
		if !strings.Contains(g, "service/listeners.go") || !(strings.Contains(g, "sync.(*Mutex).Lock") || strings.Contains(g, "sync.(*RWMutex)")) {
			continue
		}
		if m := frameRe.FindStringSubmatch(g); m != nil {
			sites[m[1]+"."+m[2]] = true
		}
		if len(dump) < 4 {
			dump = append(dump, g)
		}
	}
	prefix := "deadlock:"
	if len(sites) == 0 {
		// nobody waits for a mutex: a call wedged on something else inside listeners.go (a channel, a wait group)
		prefix = "wedge:"
		for _, g := range strings.Split(string(buf[:n]), "\n\n") {
			if !strings.Contains(g, "service/listeners.go") || !(strings.Contains(g, "[chan ") || strings.Contains(g, "[select") || strings.Contains(g, "[semacquire") || strings.Contains(g, "[sync.")) {
				continue
			}
			if !strings.Contains(g, "props.runC13") && !strings.Contains(g, ".Close(") {
				continue // only the calls the test issued, not the manager's own background loops
			}
			if m := frameRe.FindStringSubmatch(g); m != nil {
				sites[m[1]+"."+m[2]] = true
			}
			if len(dump) < 4 {
				dump = append(dump, g)
			}
		}
	}
	var ss []string
	for s := range sites {
		ss = append(ss, s)
	}
	sort.Strings(ss)
	return prefix + strings.Join(ss, "<->"), strings.Join(dump, "\n\n")
}

func runC13(c C13Case, info *kit.Info) *kit.Finding {
	racing := false
	var transient, respelled atomic.Int64
	defer func() {
		if transient.Load() > 0 {
			info.Class("listen-retried-after-transient-EADDRINUSE")
		}
		if respelled.Load() > 0 {
			info.Class("listen-under-another-spelling")
		}
	}()
	spelled := map[string]bool{}
	for _, plan := range c.Plans {
		for _, op := range plan {
			if op.Spell > 0 {
				spelled[fmt.Sprintf("%s%d", op.Kind, op.Addr)] = true
			}
		}
	}
	if c.Many > 0 {
		mgr := service.NewListenerManager()
		done := make(chan *kit.Finding, 1)
		var closed atomic.Int64
		go func() {
			var hs []io.Closer
			for i := 0; i < c.Many; i++ {
				addr := fmt.Sprintf("127.0.%d.%d:0", 1+i/200, 1+i%200)
				if l, err := mgr.ListenStream(addr); err == nil {
					hs = append(hs, l)
				}
				if p, err := mgr.ListenPacket(addr); err == nil {
					hs = append(hs, p)
				}
			}
			for _, h := range hs {
				h.Close()
				closed.Add(1)
			}
			l, err := mgr.ListenStream("127.0.1.1:0")
			if err != nil {
				done <- kit.Violation("manager:unusable-afterwards", "after closing %d listeners: %v", len(hs), err)
				return
			}
			l.Close()
			done <- nil
		}()
		select {
		case f := <-done:
			if f != nil {
				return f
			}
		case <-time.After(10 * time.Second):
			sig, dump := deadlockSignature()
			return kit.Violation(sig, "a manager opened listeners on %d addresses and closed them with no listen call in between: only %d Close calls returned within 10 s:\n%s", c.Many, closed.Load(), dump)
		}
		info.Class("many-addresses-closed-in-a-row")
	}
	for rep := 0; rep < c.Reps; rep++ {
		mgr := service.NewListenerManager()
		saddr, paddr := make([]string, c.Addrs), make([]string, c.Addrs)
		for i := range saddr {
			var err error
			if saddr[i], err = freeAddr(false); err != nil {
				info.Skipped = err.Error()
				return nil
			}
			if paddr[i], err = freeAddr(true); err != nil {
				info.Skipped = err.Error()
				return nil
			}
		}
		var wg sync.WaitGroup
		var dialMu sync.Mutex
		var dialed []net.Conn
		errs := make(chan *kit.Finding, len(c.Plans)*16)
		envErr := make(chan string, 64)
		start := make(chan struct{})
		listen := func(kind string, a int, spell ...int) (io.Closer, *kit.Finding) {
			var h io.Closer
			var err error
			addr := saddr[a]
			if kind == "lp" {
				addr = paddr[a]
			}
			if len(spell) > 0 && spell[0] > 0 {
				// another spelling of the same socket: whether it can be had depends on who holds the socket
				// right now; only that the call returns is judged (by the watchdog around the plans)
				_, port, _ := net.SplitHostPort(addr)
				alt := "127.0.0.1:0" + port
				if spell[0] == 2 {
					alt = "localhost:" + port
				}
				if kind == "ls" {
					h, err = mgr.ListenStream(alt)
				} else {
					h, err = mgr.ListenPacket(alt)
				}
				respelled.Add(1)
				if err != nil {
					return nil, nil
				}
				return h, nil
			}
			if kind == "ls" {
				h, err = mgr.ListenStream(addr)
			} else {
				h, err = mgr.ListenPacket(addr)
			}
			for attempt := 0; err != nil && strings.Contains(err.Error(), "address already in use") && attempt < 20 && !spelled[fmt.Sprintf("%s%d", kind, a)]; attempt++ {
				// Another process probing for a free port holds a port for an instant (and a concurrent listen of this
				// case may succeed right after): only a refusal that persists is the manager's doing.
				time.Sleep(time.Duration(1+attempt) * time.Millisecond)
				if kind == "ls" {
					h, err = mgr.ListenStream(addr)
				} else {
					h, err = mgr.ListenPacket(addr)
				}
				transient.Add(1)
			}
			if err != nil && strings.Contains(err.Error(), "address already in use") && spelled[fmt.Sprintf("%s%d", kind, a)] {
				return nil, nil // a handle under another spelling of this address may hold the socket
			}
			if err != nil {
				if strings.Contains(err.Error(), "address already in use") && !kit.PortOwnedBySelf(kind == "lp", addr) {
					envErr <- "port taken by another process: " + addr
					return nil, nil
				}
				return nil, kit.Violation("manager:listen-error", "%s(%s) failed although the manager is the only user of the address: %v", map[string]string{"ls": "ListenStream", "lp": "ListenPacket"}[kind], addr, err)
			}
			return h, nil
		}
		if c.PreFail {
			pre := make(chan *kit.Finding, 1)
			go func() {
				hs, e1 := net.Listen("tcp", saddr[0])
				hp, e2 := net.ListenPacket("udp", paddr[0])
				if e1 == nil {
					if l, err := mgr.ListenStream(saddr[0]); err == nil {
						l.Close()
						hs.Close()
						pre <- kit.Violation("manager:listen-on-held-address", "ListenStream(%s) succeeded while another socket held the address", saddr[0])
						return
					}
					hs.Close()
				}
				if e2 == nil {
					if l, err := mgr.ListenPacket(paddr[0]); err == nil {
						l.Close()
					}
					hp.Close()
				}
				pre <- nil
			}()
			select {
			case f := <-pre:
				if f != nil {
					return f
				}
			case <-time.After(5 * time.Second):
				sig, dump := deadlockSignature()
				return kit.Violation(sig, "repetition %d: a listen attempt on an address held by another socket did not return within 5 s:\n%s", rep, dump)
			}
		}
		for _, plan := range c.Plans {
			wg.Add(1)
			go func(plan []C13Op) {
				defer wg.Done()
				var mine []io.Closer
				<-start
				for _, op := range plan {
					switch op.Kind {
					case "ls", "lp":
						h, f := listen(op.Kind, op.Addr, op.Spell)
						if f != nil {
							errs <- f
							return
						}
						if h != nil {
							mine = append(mine, h)
						}
					case "dial":
						for k := 0; k <= op.H%4; k++ {
							if cn, err := kit.DialTCP(saddr[op.Addr], 200*time.Millisecond); err == nil {
								dialMu.Lock()
								dialed = append(dialed, cn)
								dialMu.Unlock()
							}
						}
					case "close":
						if len(mine) > 0 {
							i := op.H % len(mine)
							if err := mine[i].Close(); err != nil {
								errs <- kit.Violation("manager:close-error", "Close returned %v", err)
							}
							mine = append(mine[:i], mine[i+1:]...)
						}
					}
				}
				for _, h := range mine {
					h.Close()
				}
			}(plan)
		}
		close(start)
		done := make(chan struct{})
		go func() { wg.Wait(); close(done) }()
		select {
		case <-done:
		case <-time.After(5 * time.Second):
			sig, dump := deadlockSignature()
			return kit.Violation(sig, "repetition %d: %d goroutines issuing listen/close calls did not all return within 5 s; goroutines blocked on a mutex in listeners.go:\n%s", rep, len(c.Plans), dump)
		}
		select {
		case f := <-errs:
			return f
		default:
		}
		select {
		case e := <-envErr:
			info.Skipped = e
			return nil
		default:
		}
		// the manager remains usable: sequential listen + close on every address
		closeDialed := func() {
			dialMu.Lock()
			for _, cn := range dialed {
				cn.Close()
			}
			dialed = nil
			dialMu.Unlock()
		}
		defer closeDialed()
		fin := make(chan *kit.Finding, 1)
		go func() {
			for a := 0; a < c.Addrs; a++ {
				for _, k := range []string{"ls", "lp"} {
					h, f := listen(k, a)
					if f != nil {
						fin <- kit.Violation("manager:unusable-afterwards", "after the concurrent phase: %s", f.Msg)
						return
					}
					if h != nil {
						h.Close()
					}
				}
			}
			fin <- nil
		}()
		select {
		case f := <-fin:
			if f != nil {
				return f
			}
		case <-time.After(5 * time.Second):
			sig, dump := deadlockSignature()
			return kit.Violation(sig, "repetition %d: the sequential listen+close after the concurrent phase did not return within 5 s:\n%s", rep, dump)
		}
		closeDialed()
	}
	// non-trivial: at least two goroutines use one address, one of them closing
	use := map[string]int{}
	for gi, plan := range c.Plans {
		seen := map[string]bool{}
		for _, op := range plan {
			if op.Kind != "close" {
				seen[fmt.Sprintf("%s%d", op.Kind, op.Addr)] = true
			}
		}
		for k := range seen {
			use[k]++
		}
		_ = gi
	}
	for _, n := range use {
		racing = racing || n >= 2
	}
	dials := false
	for _, plan := range c.Plans {
		for _, op := range plan {
			dials = dials || op.Kind == "dial"
		}
	}
	info.Class(fmt.Sprintf("clients-connecting:%v", dials))
	info.NonTrivial = racing
	info.Steps = c.Reps
	info.Class(fmt.Sprintf("goroutines:%d", len(c.Plans)))
	return nil
}

func TestC13_Deadlock(t *testing.T) {
	p := kit.Prop[C13Case]{ID: "C13", Name: "Deadlock", Quick: 1000, Thorough: 100000, Gen: genC13, Run: runC13}
	p.Execute(t)
}
