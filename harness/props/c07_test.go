package props

// C07 — a client handshake is accepted at most once within the replay history.
//
// Cache level: a state machine over NewReplayCache(n) with add / resize / burst
// (K concurrent copies) operations; labels from a small alphabet so repeats are
// frequent. Server level: two StreamHandlers ("two services") sharing one cache.
// Model: the list of checked handshakes with the capacity in force at each check.

import (
	"context"
	"fmt"
	"net"
	"sync"
	"testing"
	"time"

	"github.com/Jigsaw-Code/outline-ss-server/service"
	"pgregory.net/rapid"
	"verif/harness/kit"
)

type C07Op struct {
	Kind  string `json:"kind"` // add | resize | burst
	Label int    `json:"label,omitempty"`
	Cap   int    `json:"cap,omitempty"`
	K     int    `json:"k,omitempty"`
	Svc   int    `json:"svc,omitempty"`
}

type C07Case struct {
	Cap      int     `json:"cap"`
	SaltSeed int64   `json:"salt_seed"`
	Ops      []C07Op `json:"ops"`
}

var c07Caps = []int{0, 1, 1, 2, 2, 3, 4, 5, 8, 16, 50, 1000, 19999, 20000}

func genC07(maxOps int, server bool) func(t *rapid.T) C07Case {
	return func(t *rapid.T) C07Case {
		c := C07Case{Cap: rapid.SampledFrom(c07Caps).Draw(t, "cap"), SaltSeed: rapid.Int64Range(1, 1<<40).Draw(t, "saltseed")}
		if server && c.Cap == 0 {
			c.Cap = 3
		}
		alphabet := rapid.SampledFrom([]int{2, 4, 8, 30}).Draw(t, "alphabet")
		n := rapid.IntRange(1, maxOps).Draw(t, "nops")
		kinds := []string{"add", "add", "add", "add", "add", "add", "resize", "burst"}
		if server {
			kinds = []string{"add"}
		}
		for i := 0; i < n; i++ {
			op := C07Op{Kind: rapid.SampledFrom(kinds).Draw(t, "kind")}
			switch op.Kind {
			case "add", "burst":
				op.Label = rapid.IntRange(0, alphabet-1).Draw(t, "label")
				if rapid.IntRange(0, 5).Draw(t, "fresh") == 0 {
					op.Label = 1000 + i // never seen before
				}
				op.K = rapid.IntRange(2, 12).Draw(t, "k")
				op.Svc = rapid.IntRange(0, 1).Draw(t, "svc")
			case "resize":
				op.Cap = rapid.SampledFrom(c07Caps).Draw(t, "newcap")
			}
			c.Ops = append(c.Ops, op)
		}
		return c
	}
}

// labelHandshake maps a label to (key id, salt) injectively for a given salt seed.
func labelHandshake(label int, seed int64) (string, []byte) {
	sizes := []int{32, 24, 16}
	return fmt.Sprintf("key-%d", label%3), kit.DetBytes(seed*1_000_003+int64(label), sizes[label%3])
}

// c07Model answers, for a check of `label` now, whether it must be refused, must be accepted, or either.
type c07Model struct {
	caps   []int // capacity in force at each past check
	labels []int
	cap    int
}

const (
	c07Either = iota
	c07MustRefuse
	c07MustAccept
)

func (m *c07Model) expect(label int) int {
	last := -1
	for i := len(m.labels) - 1; i >= 0; i-- {
		if m.labels[i] == label {
			last = i
			break
		}
	}
	if last < 0 {
		return c07MustAccept
	}
	// distance in checks, and the minimum capacity in force from that appearance until now
	d := len(m.labels) - last
	minCap := m.cap
	for i := last; i < len(m.caps); i++ {
		minCap = min(minCap, m.caps[i])
	}
	if d <= minCap {
		return c07MustRefuse
	}
	return c07Either
}

func (m *c07Model) record(label int) {
	m.labels = append(m.labels, label)
	m.caps = append(m.caps, m.cap)
}

func runC07Cache(c C07Case, info *kit.Info) *kit.Finding {
	var last *kit.Finding
	for attempt := int64(0); attempt < 3; attempt++ {
		f, collisionSuspect := runC07CacheOnce(c, c.SaltSeed+attempt*7717, info)
		if f == nil {
			return nil
		}
		last = f
		if !collisionSuspect {
			return f
		}
		info.Class("rerandomised-after-unexplained-refusal")
	}
	return last
}

func runC07CacheOnce(c C07Case, seed int64, info *kit.Info) (f *kit.Finding, collisionSuspect bool) {
	rc := service.NewReplayCache(c.Cap)
	m := &c07Model{cap: c.Cap}
	for i, op := range c.Ops {
		info.Steps++
		switch op.Kind {
		case "resize":
			if err := rc.Resize(op.Cap); err != nil {
				return kit.Violation("cache:resize-error", "op %d: Resize(%d) failed: %v", i, op.Cap, err), false
			}
			m.cap = op.Cap
			// a resize also bounds what was promised for everything remembered so far
			for j := range m.caps {
				m.caps[j] = min(m.caps[j], op.Cap)
			}
			info.Class("resize")
		case "add":
			id, salt := labelHandshake(op.Label, seed)
			exp := m.expect(op.Label)
			got := rc.Add(id, salt)
			d := -1
			for j := len(m.labels) - 1; j >= 0; j-- {
				if m.labels[j] == op.Label {
					d = len(m.labels) - j
					break
				}
			}
			if d >= 0 && m.cap > 0 && d >= m.cap-1 && d <= m.cap+1 {
				info.NonTrivial = true
				info.Class("repeat-at-capacity-boundary")
			}
			if exp == c07MustRefuse && got {
				return kit.Violation("cache:replay-accepted", "op %d: handshake %d was checked %d checks ago (capacity in force >= %d throughout) and was accepted again", i, op.Label, d, d), false
			}
			if exp == c07MustAccept && !got && m.cap >= 0 {
				return kit.Violation("cache:fresh-refused", "op %d: never-seen handshake %d refused (capacity %d)", i, op.Label, m.cap), true
			}
			m.record(op.Label)
		case "burst":
			id, salt := labelHandshake(op.Label, seed)
			exp := m.expect(op.Label)
			res := make([]bool, op.K)
			var wg sync.WaitGroup
			start := make(chan struct{})
			for k := 0; k < op.K; k++ {
				wg.Add(1)
				go func(k int) { defer wg.Done(); <-start; res[k] = rc.Add(id, salt) }(k)
			}
			close(start)
			wg.Wait()
			wins := 0
			for _, r := range res {
				if r {
					wins++
				}
			}
			info.Class("burst")
			switch {
			case m.cap == 0:
				if wins != op.K {
					return kit.Violation("cache:disabled-refuses", "op %d: cache disabled (capacity 0) but %d of %d copies refused", i, op.K-wins, op.K), false
				}
			case exp == c07MustRefuse && wins > 0:
				return kit.Violation("cache:replay-accepted", "op %d: %d concurrent copies of remembered handshake %d accepted", i, wins, op.Label), false
			case wins > 1:
				return kit.Violation("cache:concurrent-double-accept", "op %d: %d of %d concurrent copies of one handshake were accepted (capacity %d)", i, wins, op.K, m.cap), false
			case exp == c07MustAccept && wins == 0:
				return kit.Violation("cache:fresh-refused", "op %d: all %d copies of never-seen handshake %d refused", i, op.K, op.Label), true
			}
			if m.cap > 0 {
				info.NonTrivial = true
			}
			for k := 0; k < op.K; k++ {
				m.record(op.Label)
			}
		}
	}
	return nil, false
}

func TestC07_Cache(t *testing.T) {
	p := kit.Prop[C07Case]{ID: "C07", Name: "Cache", Quick: 60000, Thorough: 6000000, Gen: genC07(60, false), Run: runC07Cache}
	p.Execute(t)
}

// ---- server level ----------------------------------------------------------

func runC07Server(c C07Case, info *kit.Info) *kit.Finding {
	lateHistory := c.SaltSeed%3 == 0
	rc := service.NewReplayCache(c.Cap)
	if lateHistory {
		rc = service.NewReplayCache(0)
	}
	// two services: service 1 shares key "shared" (same id, same material) with service 0
	keys0 := []kit.KeySpec{{ID: "a", Cipher: kit.Chacha, Secret: "sa"}, {ID: "shared", Cipher: kit.AES256, Secret: "ss"}, {ID: "c", Cipher: kit.AES128, Secret: "sc"}}
	keys1 := []kit.KeySpec{{ID: "shared", Cipher: kit.AES256, Secret: "ss"}, {ID: "d", Cipher: kit.AES192, Secret: "sd"}, {ID: "a2", Cipher: kit.Chacha, Secret: "sa"}}
	dialer := &kit.RecDialer{}
	var hs [2]service.StreamHandler
	for i, ks := range [][]kit.KeySpec{keys0, keys1} {
		hs[i] = service.NewStreamHandler(service.NewShadowsocksStreamAuthenticator(kit.NewCipherList(ks), &rc, nil, nil), time.Second)
		hs[i].SetTargetDialer(dialer)
	}
	if lateHistory {
		// the history is switched on after the services were built (ReplayCache.Resize exists to change a live,
		// shared cache): from here on it is the configured history that counts
		rc.Resize(c.Cap)
		info.Class("history-enabled-after-service-start")
	}
	m := &c07Model{cap: c.Cap}
	type hk struct {
		id   string
		salt string
	}
	ids := map[hk]int{}
	crossSvc := false
	lastSvc := map[int]int{}
	for i, op := range c.Ops {
		info.Steps++
		// label -> (client key material, salt); the handshake identity is (matched id, salt)
		mat := []kit.KeySpec{keys0[0], keys0[1], keys0[2], keys1[1]}[op.Label%4]
		key := mat.Key()
		salt := kit.DetBytes(c.SaltSeed*1_000_003+int64(op.Label), key.SaltSize())
		// the handshake is (key, salt); what follows the salt differs from one presentation to the next (a replay
		// need not be byte-identical)
		wire := kit.EncodeStream(key, salt, append(kit.SocksAddrFor("192.0.2.99:80", false), kit.DetBytes(int64(i)+c.SaltSeed, 4+i%9)...), nil)
		// which id does this service attribute the material to?
		var svcKeys = [][]kit.KeySpec{keys0, keys1}[op.Svc]
		matchedID := ""
		for _, k := range svcKeys {
			if k.Material() == mat.Material() {
				matchedID = k.ID
				break
			}
		}
		conn := kit.NewMemConn(wire, &net.TCPAddr{IP: net.IPv4(203, 0, 113, 5), Port: 1000 + i})
		rec := kit.NewRecTCPConn()
		before := dialer.NumDials()
		hs[op.Svc].Handle(context.Background(), conn, rec)
		cl, _ := rec.Closed()
		dials := dialer.NumDials() - before
		if matchedID == "" {
			if cl.Status != "ERR_CIPHER" {
				return kit.Violation("server:foreign-key", "op %d: key not configured on service %d closed with %q", i, op.Svc, cl.Status)
			}
			continue // not an authenticated handshake: not checked against the history
		}
		h := hk{matchedID, string(salt)}
		lbl, ok := ids[h]
		if !ok {
			lbl = len(ids)
			ids[h] = lbl
		}
		exp := m.expect(lbl)
		if prev, seen := lastSvc[lbl]; seen && prev != op.Svc {
			crossSvc = true
		}
		lastSvc[lbl] = op.Svc
		switch exp {
		case c07MustRefuse:
			if cl.Status != "ERR_REPLAY_CLIENT" {
				return kit.Violation("server:replay-served", "op %d: handshake (%s, salt #%d) presented again on service %d within the history (capacity %d) closed with %q, want ERR_REPLAY_CLIENT", i, matchedID, op.Label, op.Svc, c.Cap, cl.Status)
			}
			if dials != 0 || len(conn.Output()) != 0 {
				return kit.Violation("server:replay-side-effects", "op %d: refused replay caused %d dials and %d bytes written back", i, dials, len(conn.Output()))
			}
			probe := false
			for _, e := range rec.Events() {
				probe = probe || e.Kind == "probe" && e.Status == "ERR_REPLAY_CLIENT"
			}
			if !probe {
				return kit.Violation("server:replay-not-probe", "op %d: refused replay was not handled like a probe (no probe report)", i)
			}
			info.Class("replay-refused")
		case c07MustAccept:
			if cl.Status != "OK" || dials != 1 {
				return kit.Violation("server:fresh-refused", "op %d: never-seen handshake (%s, salt #%d) on service %d: status %q, %d dials", i, matchedID, op.Label, op.Svc, cl.Status, dials)
			}
		}
		m.record(lbl)
	}
	info.NonTrivial = crossSvc
	if crossSvc {
		info.Class("presented-on-both-services")
	}
	return nil
}

func TestC07_Server(t *testing.T) {
	p := kit.Prop[C07Case]{ID: "C07", Name: "Server", Quick: 12000, Thorough: 1000000, Gen: genC07(30, true), Run: runC07Server}
	p.Execute(t)
}
