package props

// mainexec: generated configurations, YAML rendering, and the probe matrix used by
// C09/C10/C11 against the real `main` package running in the executor process.

import (
	"errors"
	"fmt"
	"net"
	"os"
	"path/filepath"
	"strings"
	"sync/atomic"
	"syscall"
	"time"

	"pgregory.net/rapid"
	"verif/harness/kit"
)

type GListener struct {
	Type string `json:"type"` // tcp | udp
	Host string `json:"host"` // 127.0.0.1 | ::1
	Slot int    `json:"slot"` // index into the per-case port table
}

type GService struct {
	Listeners []GListener   `json:"listeners"`
	Keys      []kit.KeySpec `json:"keys"`
}

type GLegacy struct {
	kit.KeySpec
	Slot int `json:"slot"`
}

type GConfig struct {
	Services []GService `json:"services"`
	Legacy   []GLegacy  `json:"legacy"`
}

const maxSlots = 10

// genConfig draws a valid configuration: no duplicate listeners, legacy port slots disjoint from service slots.
func genConfig(t *rapid.T, universe []kit.KeySpec, label string) GConfig {
	var c GConfig
	used := map[string]bool{}
	nsvc := rapid.IntRange(0, 4).Draw(t, label+"nsvc")
	// Slots 0-1 are only ever used by legacy (wildcard) ports, 2-8 by service listeners, 9 is reserved (C11's retained
	// address): a wildcard and a specific bind on one port conflict while two generations overlap during a reload,
	// which would make a fault-free reload fail for a reason outside the properties.
	nLegacyPorts := rapid.IntRange(0, 2).Draw(t, label+"nlegacyports")
	if nsvc == 0 && nLegacyPorts == 0 {
		nsvc = 1
	}
	legacySlots := rapid.Permutation([]int{0, 1}).Draw(t, label+"lslots")[:nLegacyPorts]
	svcSlots := []int{2, 3, 4, 5, 6, 7, 8}
	for s := 0; s < nsvc; s++ {
		var svc GService
		nl := rapid.IntRange(1, 4).Draw(t, label+"nlisteners")
		for i := 0; i < nl; i++ {
			l := GListener{Type: rapid.SampledFrom([]string{"tcp", "tcp", "udp"}).Draw(t, label+"ltype"), Host: rapid.SampledFrom([]string{"127.0.0.1", "127.0.0.1", "::1"}).Draw(t, label+"lhost"),
				Slot: svcSlots[rapid.IntRange(0, len(svcSlots)-1).Draw(t, label+"lslot")]}
			k := fmt.Sprintf("%s/%s/%d", l.Type, l.Host, l.Slot)
			if used[k] {
				continue
			}
			used[k] = true
			svc.Listeners = append(svc.Listeners, l)
		}
		nk := rapid.IntRange(1, 6).Draw(t, label+"nkeys")
		for i := 0; i < nk; i++ {
			k := universe[rapid.IntRange(0, len(universe)-1).Draw(t, label+"key")]
			// ids inside a service are what the operator wrote: mostly the universe id, sometimes a per-service alias
			switch rapid.IntRange(0, 5).Draw(t, label+"alias") {
			case 0:
				k.ID = fmt.Sprintf("%s-s%d-%d", k.ID, s, i)
			case 1:
				// an id that goes with the secret, whatever the cipher: across reloads the same id and secret
				// reappear under another cipher (an operator changing a user's cipher)
				k.ID = "user-of-" + k.Secret
			}
			svc.Keys = append(svc.Keys, k)
		}
		c.Services = append(c.Services, svc)
	}
	for p := 0; p < nLegacyPorts; p++ {
		nk := rapid.IntRange(1, 4).Draw(t, label+"nlegacykeys")
		for i := 0; i < nk; i++ {
			k := universe[rapid.IntRange(0, len(universe)-1).Draw(t, label+"lkey")]
			switch rapid.IntRange(0, 5).Draw(t, label+"lalias") {
			case 0:
				k.ID = fmt.Sprintf("%s-p%d-%d", k.ID, p, i)
			case 1:
				k.ID = "user-of-" + k.Secret
			}
			c.Legacy = append(c.Legacy, GLegacy{KeySpec: k, Slot: legacySlots[p]})
		}
	}
	return c
}

// portTable allocates ports that are free for TCP and UDP on the wildcard address.
type portTable struct{ ports [maxSlots]int }

func newPortTable() (*portTable, error) {
	pt := &portTable{}
	for i := 0; i < maxSlots; i++ {
		p, err := kit.FreePort()
		if err != nil {
			return nil, err
		}
		pt.ports[i] = p
	}
	return pt, nil
}

func (pt *portTable) addr(host string, slot int) string {
	return net.JoinHostPort(host, fmt.Sprint(pt.ports[slot]))
}

func yq(s string) string { return `"` + strings.NewReplacer(`\`, `\\`, `"`, `\"`).Replace(s) + `"` }

// renderYAML writes the configuration in the server's YAML format (both formats mixed).
func (c GConfig) renderYAML(pt *portTable) string {
	var b strings.Builder
	if len(c.Services) > 0 {
		b.WriteString("services:\n")
		for _, s := range c.Services {
			b.WriteString("  - listeners:\n")
			if len(s.Listeners) == 0 {
				b.WriteString("      []\n")
			}
			for _, l := range s.Listeners {
				fmt.Fprintf(&b, "      - type: %s\n        address: %s\n", l.Type, yq(pt.addr(l.Host, l.Slot)))
			}
			b.WriteString("    keys:\n")
			for _, k := range s.Keys {
				fmt.Fprintf(&b, "      - id: %s\n        cipher: %s\n        secret: %s\n", yq(k.ID), k.Cipher, yq(k.Secret))
			}
		}
	}
	if len(c.Legacy) > 0 {
		b.WriteString("keys:\n")
		for _, k := range c.Legacy {
			fmt.Fprintf(&b, "  - id: %s\n    port: %d\n    cipher: %s\n    secret: %s\n", yq(k.ID), pt.ports[k.Slot], k.Cipher, yq(k.Secret))
		}
	}
	return b.String()
}

// ---- model of what a loaded configuration serves ------------------------------

type endpoint struct {
	Proto string // tcp | udp
	Addr  string // host:port to probe
}

type endpointModel struct {
	// material -> admissible ids (new format: exactly the first; legacy: every id with that material on the port)
	ids map[string]map[string]bool
}

// serving returns, for a configuration, every endpoint it must listen on with its key model.
func (c GConfig) serving(pt *portTable) map[endpoint]*endpointModel {
	out := map[endpoint]*endpointModel{}
	for _, s := range c.Services {
		m := &endpointModel{ids: map[string]map[string]bool{}}
		for _, k := range s.Keys {
			mat := k.Material()
			if _, ok := m.ids[mat]; !ok {
				m.ids[mat] = map[string]bool{k.ID: true} // de-duplicated keeping the first id
			}
		}
		for _, l := range s.Listeners {
			out[endpoint{l.Type, pt.addr(l.Host, l.Slot)}] = m
		}
	}
	bySlot := map[int]*endpointModel{}
	for _, k := range c.Legacy {
		m := bySlot[k.Slot]
		if m == nil {
			m = &endpointModel{ids: map[string]map[string]bool{}}
			bySlot[k.Slot] = m
		}
		mat := k.Material()
		if m.ids[mat] == nil {
			m.ids[mat] = map[string]bool{}
		}
		m.ids[mat][k.ID] = true
	}
	for slot, m := range bySlot {
		// legacy ports listen on all interfaces, TCP and UDP
		for _, proto := range []string{"tcp", "udp"} {
			out[endpoint{proto, pt.addr("127.0.0.1", slot)}] = m
			if kit.HaveAddr("::1") {
				out[endpoint{proto, pt.addr("::1", slot)}] = m
			}
		}
	}
	return out
}

// ---- executor session + probes ---------------------------------------------------

type mainSession struct {
	ex      *kit.Exec
	dir     string
	pt      *portTable
	nfile   int
	seed    int64
	control string // local address allowed by the default policy ("" if none)
	udpSink *kit.UDPPeer
}

var sessionCounter atomic.Int64

func newMainSession(seed int64) (*mainSession, string) {
	pt, err := newPortTable()
	if err != nil {
		return nil, "port table: " + err.Error()
	}
	ex, err := kit.StartExec("VERIF_BIN_INPKG_MAIN", "TestVerifExecutor")
	if err != nil {
		return nil, "executor: " + err.Error()
	}
	dir, err := os.MkdirTemp(kit.OutDir("cfg"), "case-")
	if err != nil {
		ex.Kill()
		return nil, err.Error()
	}
	c05Detect()
	s := &mainSession{ex: ex, dir: dir, pt: pt, seed: seed, control: c05Local.control}
	if s.control != "" {
		s.udpSink, _ = kit.NewUDPPeer(s.control, 0)
	}
	return s, ""
}

func (s *mainSession) close() {
	s.ex.Kill()
	if s.udpSink != nil {
		s.udpSink.Close()
	}
	os.RemoveAll(s.dir)
}

func (s *mainSession) writeConfig(yaml string) string {
	s.nfile++
	p := filepath.Join(s.dir, fmt.Sprintf("config-%d.yml", s.nfile))
	os.WriteFile(p, []byte(yaml), 0o644)
	return p
}

type probeResult struct {
	Listening bool
	Auth      bool
	ID        string
	Status    string
	NoAttr    bool // UDP without an allowed destination: attribution not observable
	NoVerdict bool // neither refused nor handled by the server (e.g. another process holds the port)
}

// serverOwnsPort asks the executor whether its process has a socket bound to the port of addr.
func (s *mainSession) serverOwnsPort(udp bool, addr string) (bool, error) {
	_, ps, _ := net.SplitHostPort(addr)
	var port int
	fmt.Sscanf(ps, "%d", &port)
	r, err := s.ex.Do(map[string]any{"cmd": "owns_port", "udp": udp, "port": port}, 10*time.Second)
	if err != nil {
		return false, err
	}
	return r.OK, nil
}

func (s *mainSession) nextSeed() int64 { s.seed += 7919; return s.seed }

// probeTCP connects to ep and presents a valid stream under key.
func (s *mainSession) probeTCP(addr string, key *kit.Key) (probeResult, *kit.Finding, error) {
	var r probeResult
	conn, err := kit.DialTCP(addr, 3*time.Second)
	if err != nil {
		if errors.Is(err, syscall.ECONNREFUSED) {
			return r, nil, nil
		}
		return r, nil, fmt.Errorf("dial %s: %w", addr, err)
	}
	defer conn.Close()
	r.Listening = true
	local := conn.LocalAddr().String()
	from := len(s.ex.Events)
	plain := append(kit.SocksAddr("127.0.0.1", 9, false), "x"...)
	conn.Write(kit.EncodeStream(key, kit.DetBytes(s.nextSeed(), key.SaltSize()), plain, nil))
	conn.CloseWrite()
	// A socket that is being closed may still complete a handshake in the kernel and then reset the
	// connection: if nobody ever opened the connection and it was reset, the endpoint is not listening.
	idx, ok, err := s.ex.WaitEvent(from, 300*time.Millisecond, func(e kit.ExecEvent) bool { return e.Kind == "tcp_closed" && e.Remote == local })
	if err == nil && !ok {
		conn.SetReadDeadline(time.Now().Add(50 * time.Millisecond))
		_, rerr := conn.Read(make([]byte, 1))
		opened := false
		for _, e := range s.ex.Events[from:] {
			opened = opened || e.Kind == "tcp_open" && e.Remote == local
		}
		if rerr != nil && !kit.IsTimeout(rerr) && !opened {
			if c2, derr := kit.DialTCP(addr, 3*time.Second); derr != nil && errors.Is(derr, syscall.ECONNREFUSED) {
				r.Listening = false
				return r, nil, nil
			} else if derr == nil {
				c2.Close()
			}
		}
		idx, ok, err = s.ex.WaitEvent(from, 5*time.Second, func(e kit.ExecEvent) bool { return e.Kind == "tcp_closed" && e.Remote == local })
	}
	if err != nil {
		return r, nil, err
	}
	if !ok {
		opened := false
		for _, e := range s.ex.Events[from:] {
			opened = opened || e.Kind == "tcp_open" && e.Remote == local
		}
		if !opened {
			r.NoVerdict = true // somebody accepted the connection, but the server never saw it
			return r, nil, nil
		}
		return r, kit.Violation("config:connection-not-handled", "connection from %s to %s was opened by the server but never reported closed within 5 s", local, addr), nil
	}
	r.Status = s.ex.Events[idx].Status
	opens, auths := 0, 0
	for _, e := range s.ex.Events[from:] {
		if e.Remote != local {
			continue
		}
		switch e.Kind {
		case "tcp_open":
			opens++
		case "tcp_auth":
			auths++
			r.Auth, r.ID = true, e.Key
		}
	}
	if opens != 1 || auths > 1 {
		return r, kit.Violation("config:handled-twice", "connection from %s to %s: %d open reports, %d authentications (handled by more than one generation?)", local, addr, opens, auths), nil
	}
	return r, nil, nil
}

// probeUDP sends one datagram under key. UDP probes must be issued sequentially.
func (s *mainSession) probeUDP(addr string, key *kit.Key) (probeResult, *kit.Finding, error) {
	// A datagram that lands in the buffer of a socket that is just being closed is neither refused nor
	// processed: ask again before concluding anything.
	for attempt := 0; ; attempt++ {
		r, f, err := s.probeUDPOnce(addr, key)
		if r.NoVerdict && attempt < 2 {
			continue
		}
		return r, f, err
	}
}

func (s *mainSession) probeUDPOnce(addr string, key *kit.Key) (probeResult, *kit.Finding, error) {
	var r probeResult
	c, err := kit.DialUDPFixed(addr) // a local port that no earlier probe used: no stale association for it
	if err != nil {
		return r, nil, fmt.Errorf("dial udp %s: %w", addr, err)
	}
	defer c.Close()
	local := c.LocalAddr().String()
	if err := s.ex.Drain(); err != nil {
		return r, nil, err
	}
	from := len(s.ex.Events)
	dest := kit.SocksAddr("127.0.0.1", 9, false)
	if s.udpSink != nil {
		dest = kit.SocksAddr(s.control, s.udpSink.Addr.Port, false)
	} else {
		r.NoAttr = true
	}
	pkt := kit.PackUDP(key, kit.DetBytes(s.nextSeed(), key.SaltSize()), append(dest, "u"...))
	if _, err := c.Write(pkt); err != nil {
		if errors.Is(err, syscall.ECONNREFUSED) {
			return r, nil, nil
		}
	}
	deadline := time.Now().Add(1500 * time.Millisecond)
	buf := make([]byte, 16)
	for {
		c.SetReadDeadline(time.Now().Add(2 * time.Millisecond))
		if _, err := c.Read(buf); err != nil && errors.Is(err, syscall.ECONNREFUSED) {
			return r, nil, nil // nothing listens on that port
		}
		if err := s.ex.Drain(); err != nil {
			return r, nil, err
		}
		for _, e := range s.ex.Events[from:] {
			if e.Kind == "search" && e.Proto == "udp" {
				r.Listening, r.Auth = true, e.Found
			}
		}
		if r.Listening {
			break
		}
		if time.Now().After(deadline) {
			// silent and not refusing
			r.NoVerdict = true
			return r, nil, nil
		}
	}
	if r.Auth && !r.NoAttr {
		idx, ok, err := s.ex.WaitEvent(from, 3*time.Second, func(e kit.ExecEvent) bool { return e.Kind == "udp_add" && e.Remote == local })
		if err != nil {
			return r, nil, err
		}
		if !ok {
			return r, kit.Violation("config:udp-assoc-missing", "datagram from %s authenticated on %s with an allowed destination but no association was reported", local, addr), nil
		}
		r.ID = s.ex.Events[idx].Key
		if s.udpSink != nil {
			s.udpSink.Pop(2 * time.Second)
		}
	}
	return r, nil, nil
}

// probeMatrix checks every (endpoint, key material) pair of the universe against the model:
// listening <=> endpoint in model; authenticates <=> material in the endpoint's model; id admissible.
func (s *mainSession) probeMatrix(model map[endpoint]*endpointModel, endpoints []endpoint, universe []kit.KeySpec, when string, info *kit.Info) (*kit.Finding, error) {
	mats := map[string]*kit.Key{}
	var order []string
	for _, k := range universe {
		if _, ok := mats[k.Material()]; !ok {
			mats[k.Material()] = k.Key()
			order = append(order, k.Material())
		}
	}
	for _, ep := range endpoints {
		m := model[ep]
		first := true
		for _, mat := range order {
			key := mats[mat]
			var r probeResult
			var f *kit.Finding
			var err error
			if ep.Proto == "tcp" {
				r, f, err = s.probeTCP(ep.Addr, key)
			} else {
				r, f, err = s.probeUDP(ep.Addr, key)
			}
			if err != nil || f != nil {
				if f != nil {
					f.Msg = when + ": " + f.Msg
				}
				return f, err
			}
			info.Steps++
			if r.NoVerdict {
				// Something holds the port without being the server's handler. If it is the server process itself,
				// a socket outlived its configuration (or serves nobody); otherwise another process took the port.
				owns, err := s.serverOwnsPort(ep.Proto == "udp", ep.Addr)
				if err != nil {
					return nil, err
				}
				if owns {
					return kit.Violation("config:socket-bound-but-not-served", "%s: the server process holds %s %s but does not handle traffic on it (in serving configuration: %v)", when, ep.Proto, ep.Addr, m != nil), nil
				}
				if m != nil {
					return kit.Violation("config:not-listening", "%s: %s %s is in the serving configuration but the server holds no socket on it", when, ep.Proto, ep.Addr), nil
				}
				info.Class("probe:port-held-by-another-process")
				break
			}
			if m == nil {
				if r.Listening {
					return kit.Violation("config:listening-not-in-config", "%s: %s %s accepts traffic although the serving configuration has no such listener (key %s authenticated=%v)", when, ep.Proto, ep.Addr, mat, r.Auth), nil
				}
				if first {
					info.Class("probe:closed-endpoint")
				}
				first = false
				break // closed for every key
			}
			if !r.Listening {
				return kit.Violation("config:not-listening", "%s: %s %s is in the serving configuration but refuses traffic", when, ep.Proto, ep.Addr), nil
			}
			allowed := m.ids[mat]
			if allowed == nil {
				if r.Auth {
					return kit.Violation("config:foreign-key-authenticates", "%s: key material %s is not configured for %s %s but authenticated (as %q)", when, mat, ep.Proto, ep.Addr, r.ID), nil
				}
				info.Class("probe:foreign-key-refused")
				continue
			}
			if !r.Auth && ep.Proto == "udp" {
				// The ephemeral port of this probe socket may have been used by an earlier probe whose association
				// (bound to another key) is still alive: a known client address is only tried with its own key.
				// Ask again from a fresh socket before judging.
				if r, f, err = s.probeUDP(ep.Addr, key); err != nil || f != nil {
					return f, err
				}
			}
			if !r.Auth {
				return kit.Violation("config:configured-key-refused", "%s: key material %s is configured for %s %s (ids %v) but did not authenticate (status %s)", when, mat, ep.Proto, ep.Addr, keysOf(allowed), r.Status), nil
			}
			if !(ep.Proto == "udp" && r.NoAttr) && !allowed[r.ID] {
				return kit.Violation("config:misattributed", "%s: key material %s on %s %s attributed to %q, configured id(s): %v", when, mat, ep.Proto, ep.Addr, r.ID, keysOf(allowed)), nil
			}
			info.Class("probe:configured-key-ok")
		}
	}
	return nil, nil
}
