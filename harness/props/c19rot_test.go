package props

// C19 (replay history at its capacity) — concurrent Adds that push the history through its rotation behave like
// some sequential order of the same calls: a handshake followed, in *every* possible order, by fewer than N
// checked handshakes is still refused afterwards.
//
// Rounds of: K fresh handshakes added one after the other (K anywhere between 1 and 2N+3, so that the burst meets
// the generations at every fill level), then a burst of M fresh handshakes from G goroutines at once (M < N/2),
// then - the burst over - the q most recent of the K are presented again, oldest first. Before the i-th of these
// checks, the handshake has been followed by at most (q-1) + M + i checked handshakes in any order of the burst;
// q is chosen so that this stays below N. An acceptance is a violation; a refusal of a fresh handshake is not
// judged (the history is keyed by a 32-bit hash).

import (
	"sync"
	"testing"

	"github.com/Jigsaw-Code/outline-ss-server/service"
	"pgregory.net/rapid"
	"verif/harness/kit"
)

type C19Rot struct {
	N      int   `json:"n"`
	Rounds []struct {
		K int `json:"k"`
		G int `json:"g"`
		M int `json:"m"`
	} `json:"rounds"`
	Seed int64 `json:"seed"`
}

func genC19Rot(t *rapid.T) C19Rot {
	c := C19Rot{N: rapid.SampledFrom([]int{8, 16, 64, 64, 1000, 20000}).Draw(t, "n"), Seed: rapid.Int64Range(1, 1<<40).Draw(t, "seed")}
	nr := rapid.IntRange(1, 12).Draw(t, "rounds")
	if c.N >= 1000 {
		nr = min(nr, 3)
	}
	for i := 0; i < nr; i++ {
		var r struct {
			K int `json:"k"`
			G int `json:"g"`
			M int `json:"m"`
		}
		r.K = rapid.OneOf(rapid.IntRange(1, 2*c.N+3), rapid.SampledFrom([]int{c.N - 1, c.N, c.N + 1, 2 * c.N})).Draw(t, "k")
		r.G = rapid.IntRange(2, 16).Draw(t, "g")
		r.M = rapid.IntRange(2, max(2, c.N/2-1)).Draw(t, "m")
		c.Rounds = append(c.Rounds, r)
	}
	return c
}

func runC19Rot(c C19Rot, info *kit.Info) *kit.Finding {
	rc := service.NewReplayCache(c.N)
	next := c.Seed
	fresh := func() []byte { next++; return kit.DetBytes(next, 32) }
	for ri, r := range c.Rounds {
		var recent [][]byte
		for i := 0; i < r.K; i++ {
			s := fresh()
			rc.Add("key", s)
			recent = append(recent, s)
		}
		burst := make([][]byte, r.M)
		for i := range burst {
			burst[i] = fresh()
		}
		var wg sync.WaitGroup
		start := make(chan struct{})
		for g := 0; g < r.G; g++ {
			wg.Add(1)
			go func(g int) {
				defer wg.Done()
				<-start
				for i := g; i < len(burst); i += r.G {
					rc.Add("key", burst[i])
				}
			}(g)
		}
		close(start)
		wg.Wait()
		q := min(len(recent), (c.N-r.M)/2)
		for i := 0; i < q; i++ {
			s := recent[len(recent)-q+i]
			info.Steps++
			if rc.Add("key", s) {
				return kit.Violation("cache:history-lost-at-rotation", "history of %d, round %d: a handshake added %d sequential adds before a burst of %d concurrent adds (%d goroutines) was accepted again right after the burst, as check %d: in every order of the burst it was followed by at most %d checked handshakes (< %d)", c.N, ri, q-i, r.M, r.G, i, q-1+r.M+i, c.N)
			}
		}
		if q > 0 {
			info.NonTrivial = true
		}
	}
	return nil
}

func TestC19_ReplayRotation(t *testing.T) {
	p := kit.Prop[C19Rot]{ID: "C19", Name: "ReplayRotation", Quick: 300, Thorough: 20000, Gen: genC19Rot, Run: runC19Rot, Journal: true}
	p.Execute(t)
}
