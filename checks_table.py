"""Per-property check configuration used by ./check (units = groups of test functions run as shard processes)."""

def unit(bin, tests, pid, shards=(4, 16), timeout=(240, 1500), **kw):
    d = dict(bin=bin, tests=tests, run="^TestC%s_(%s)$" % (pid[1:], "|".join(tests)), shards=shards, timeout=timeout)
    d.update(kw)
    return d

CHECKS = {
    "C01": dict(
        level="exploration",
        rule="rapid-generated histories of connect/update/snapshot over one CipherList + real StreamHandler (in-memory conns); "
             "key universe of 2..24 (thorough 120) keys with all four ciphers and duplicated materials; inputs: valid, truncated, bit-flipped, "
             "extended, random, foreign-key streams. Non-trivial = the live list has >=2 distinct salt sizes and (the matching key was not at the head "
             "of the snapshot for that client IP, or the input is derived-invalid: truncated / flipped / valid under a key not in the list). "
             "Distinct = distinct canonical JSON of the whole case.",
        assumptions=["AEAD/HKDF strength (forgery resistance) is assumed", "in-memory StreamConn stands in for a TCP socket"],
        units=[unit("props", ["Auth"], "C01")],
    ),
}

CHECKS["C02"] = dict(
    level="exploration",
    rule="rapid-generated two-party scripts (client send / target send / concurrent both / client half-close / target half-close / sync) over real loopback TCP "
         "through the real StreamServe+StreamHandler; generated cipher, address form (IPv4, IPv6, hostname, IP-literal domain), first-chunk layout, chunk plans "
         "(1..16383 incl. boundaries), TCP write segmentation and pacing, 0..120 KB (thorough 2 MiB) per send. Non-trivial = >=2 chunks in some direction, or a "
         "half-close followed by traffic in the opposite direction, or an address split across chunks / coalesced with data. Distinct = canonical case JSON.",
    assumptions=["loopback only: no loss or reordering below TCP", "interleavings are those the kernel and scheduler produce under generated pacing"],
    units=[unit("props", ["Relay"], "C02")],
)
