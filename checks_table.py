"""Per-property check configuration used by ./check (units = groups of test functions run as shard processes)."""

def unit(bin, tests, pid, shards=(4, 16), timeout=(240, 1500), **kw):
    d = dict(bin=bin, tests=tests, run="^TestC%s_(%s)$" % (pid[1:], "|".join(tests)), shards=shards, timeout=timeout)
    d.update(kw)
    return d

CHECKS = {
    "C01": dict(
        level="exploration",
        rule="rapid-generated histories of connect/update/snapshot over one CipherList + real StreamHandler (in-memory conns); "
             "key universe of 2..24 (thorough 120) keys with all four ciphers and duplicated materials; inputs: valid, truncated, bit-flipped, "
             "extended, random, foreign-key streams. Non-trivial = the live list has >=2 distinct salt sizes and (the matching key was not at the head "
             "of the snapshot for that client IP, or the input is derived-invalid: truncated / flipped / valid under a key not in the list). "
             "Distinct = distinct canonical JSON of the whole case. "
             "(FuzzAuth) byte strings decoded as raw opening bytes or as plaintext encrypted under one of six configured keys and then damaged at a fuzzer-chosen offset, judged by the same reference; "
             "run as a rapid property in both tiers and as a coverage-guided native fuzz target (150 s) in the thorough tier (evaluations then include the fuzzer's executions; its corpus size is reported as distinct cases).",
        assumptions=["AEAD/HKDF strength (forgery resistance) is assumed", "in-memory StreamConn stands in for a TCP socket"],
        units=[unit("props", ["Auth", "Concurrent", "FuzzAuth"], "C01"),
               dict(bin="props-fuzz", tests=["FuzzAuth"], run="^$", fuzz="FuzzC01Auth", fuzztime="150s", shards=(1, 1), timeout=(400, 900), tiers=["thorough"], crash_is_violation=True)],
    ),
}

CHECKS["C02"] = dict(
    level="exploration",
    rule="rapid-generated two-party scripts (client send / target send / concurrent both / client half-close / target half-close / sync) over real loopback TCP "
         "through the real StreamServe+StreamHandler, optionally ending with a slow-target phase (the target half-closes, stays deaf while the client uploads 0.3-1 MiB and half-closes, and resumes once the proxy is done); generated cipher, address form (IPv4, IPv6, hostname, IP-literal domain), first-chunk layout, chunk plans "
         "(1..16383 incl. boundaries), TCP write segmentation and pacing, 0..120 KB (thorough 2 MiB) per send. Non-trivial = >=2 chunks in some direction, or a "
         "half-close followed by traffic in the opposite direction, or an address split across chunks / coalesced with data. Distinct = canonical case JSON.",
    assumptions=["loopback only: no loss or reordering below TCP", "interleavings are those the kernel and scheduler produce under generated pacing"],
    units=[unit("props", ["Relay", "Concurrent", "Duplex", "Mem"], "C02"), unit("props26", ["Quiet"], "C02")],
)

_UDP_GEN = ("rapid-generated datagram histories through the real PacketHandler on a real dual-stack UDP socket: 1..7 client sockets on 127.x.y.z/::1 "
            "(shared IPs, distinct ports), 1..4 scripted targets on IPv4 and IPv6 loopback, key lists with all ciphers and duplicated material; operations: "
            "send (valid / truncated / bit-flipped / random / bad address type / short address / unsendable port 0 / a destination the world's policy refuses; any key of the universe), reply from a contacted target, "
            "datagram from a never-contacted sender, also from this host's link-local address (zoned source) when it has one (replies up to 65507 bytes: beyond what one relayed datagram can carry delivery is optional, but never partial), expiry, key-list update under the running loop (with a former client coming back with a dropped key); in the expiry variants a slow sink for the removal report (0/5/20 ms) keeps the teardown window open. Every operation's effect is awaited (fence datagram for must-not-happen) before the next. ")

CHECKS["C03"] = dict(
    level="exploration",
    rule=_UDP_GEN + "Non-trivial = an association opened by a key that is not first in a list of >=2 keys, or an invalid datagram on a live association, "
         "or an IPv6 target/sender, or a reply from a never-contacted sender, or payload >=1472 bytes. Distinct = canonical case JSON.",
    assumptions=["loopback UDP: no loss/reordering in practice; a lost expected datagram is retried once before it counts", "AEAD strength assumed"],
    units=[unit("props", ["UDP", "UDPExpiry", "Shared"], "C03")],
)
CHECKS["C04"] = dict(
    level="exploration",
    rule=_UDP_GEN + "Two tests: long NAT timeout (exact model) and 120-350 ms timeouts with expire operations (guard band of 0.4 x timeout keeps operations "
         "away from the ambiguous instant). Non-trivial = at the end >=2 live associations share a client IP or a key and at least one reply was relayed. "
         "Distinct = canonical case JSON.",
    assumptions=["source-address comparison across an expiry is not asserted (a new association may legitimately reuse a port)"],
    units=[unit("props", ["NAT", "NATExpiry", "Policy"], "C04")],
)
CHECKS["C16"] = dict(
    level="exploration",
    rule=_UDP_GEN + "After the history the listener is shut down and the recorded UDPMetrics/UDPConnMetrics call log is compared, per association and in order, "
         "with the sizes and outcomes observed at the client and target sockets; the real Prometheus collector sits behind the recorder and what it exports "
         "(udp_nat_entries_added/removed, data_bytes{proto=udp} per key and direction, udp_packets_from_client_per_location per status) must add up to the same calls. "
         "Non-trivial = an association with >=2 client datagrams or >=1 reply. "
         "Distinct = canonical case JSON.",
    assumptions=["interleaving between client-datagram and reply reports of one association is not asserted (two goroutines)"],
    units=[unit("props", ["Metrics", "MetricsExpiry"], "C16")],
)

CHECKS["C05"] = dict(
    level="exploration",
    rule="(Func) rapid-generated addresses: near (+-3) the first/last address of every IANA special-purpose block, inside blocks, uniformly random IPv4/IPv6, "
         "in 4-byte, 16-byte and IPv4-mapped forms, judged by an independent prefix-table oracle (must-reject / must-accept / not judged). "
         "(Sweep) enumeration of IPv4: quick = every block boundary +-300 and a stride of 4099; thorough = all 2^32 addresses in both byte forms (exhaustive for that sub-domain). "
         "(TCP, UDP) generated SOCKS destinations through the default dialer/validator: IPv4/IPv6/mapped literals, empty and IP-literal domains (incl. zoned link-local), "
         "hostnames answered by an in-process DNS with 0..4 mixed answers, non-local private/CGNAT/multicast literals; UDP: the forbidden datagram at position 1..7 of a live association. "
         "(Shared) one packet handler serving 2..4 UDP sockets at once, clients on even sockets flooding an allowed destination and on odd sockets a refused one (same port): nothing may reach the refused one. "
         "Sinks are bound on every local forbidden address; only an observed arrival is a violation; the local allowed address 192.0.2.2 is the positive control. "
         "Non-trivial = address within 3 of a block boundary or in mapped/16-byte form (Func); must-reject or boundary address (Sweep, distinct by construction); "
         "mapped/zoned/IP-literal-domain/empty/multi-answer destination or forbidden datagram at position >=2 (TCP/UDP).",
    assumptions=["non-local forbidden destinations have no sink: judged by reported status only", "address classes available on this host are detected at run time"],
    units=[unit("props", ["FirstUse"], "C05"), unit("props-race", ["FirstUse"], "C05", crash_is_violation=True), unit("props", ["Func", "TCP", "UDP", "Shared"], "C05"), unit("props", ["Sweep"], "C05", shards=(4, 16), timeout=(240, 3000))],
)

CHECKS["C06"] = dict(
    level="exploration",
    rule="(Real, added later) the listener is closed 40..150 ms into a batch once every probe connection was accepted; probe kind replay_burst = 2..8 identical copies of a fresh handshake at once with the replay history on (at most one reaches a target, all stay open); cases run with the garbage collector off. (FakeTime, added later) the serving context is cancelled at a generated fake time. " +
         "(FakeTime) rapid-generated probes against the real StreamHandler with the production 59 s timeout inside a testing/synctest bubble per case: "
         "random bytes of length 0..70000 (biased to 49/50/51 and salt+18 boundaries), valid streams truncated at any offset, single bit flips anywhere in the first 130 bytes, "
         "foreign-key streams, exact replays (cache on), reflected server salts, bad address type, corrupted address chunk, incomplete address; key lists of 1..12 (thorough 100) keys, "
         "all ciphers; client stays open / FINs at a generated instant / keeps trickling bytes; generated write segmentation with fake-time gaps. Deadlines compared with ==. "
         "(Real) batches of up to 32 concurrent probes over loopback TCP with a 250 ms timeout, plus post-dial corruption (length block / length tag / payload / payload tag of a mid-relay chunk, more client data following) "
         "against a target that never closes and against an ordinary target that closes when the proxy half-closes. "
         "Non-trivial = probe derived from a valid stream (truncate/flip/replay/reflect/foreign key/invalid-after-auth), or random bytes of length 48..52 or >66. "
         "Complete valid requests produced by a mutation (e.g. a flip beyond the header) are classified by the reference codec and not judged.",
    assumptions=["fake-time engine runs under go1.26.8 timer semantics (asynctimerchan=0)", "real-socket upper bounds are reported only if they reproduce 3 times in isolation"],
    units=[unit("props26", ["FakeTime"], "C06"), unit("props", ["Real"], "C06"), unit("props", ["AcrossReload"], "C06", needs=["inpkg-main"])],
)

CHECKS["C07"] = dict(
    level="exploration",
    rule="(Cache) rapid state machine on NewReplayCache(n), n in {0,1,2,3,4,5,8,16,50,1000,19999,20000}: add(label) / resize(m) / burst(K concurrent copies of one handshake), labels from alphabets of "
         "2..30 plus fresh ones so repeats at every distance occur; labels map injectively to (key id, 32/24/16-byte salt). Model = list of checks with the capacity in force; a repeat at distance d <= min capacity "
         "over the interval must be refused, a never-seen label must be accepted (an unexplained refusal is re-tried under two re-randomisations of all salts), a burst has exactly one winner. "
         "(Server) two StreamHandlers with different key lists sharing one cache, handshakes presented on either. "
         "Non-trivial = a repeat at distance within +-1 of the capacity, a burst with the cache enabled, or a handshake presented on both services. Distinct = canonical case JSON.",
    assumptions=["the 32-bit checksum construction is not modelled: collisions are handled by re-randomisation (rule 4)", "(Reload) the real main package with -replay_history N in the executor: two retained services sharing one key, handshakes presented on either, interleaved with generated reloads; non-trivial = a refused replay whose earlier presentation was on the other service or before a reload"],
    units=[unit("props", ["Cache", "Server"], "C07"), unit("props", ["Reload"], "C07", needs=["inpkg-main"])],
)
CHECKS["C08"] = dict(
    level="exploration",
    rule="rapid-generated runs of 2..40 (thorough 300) relayed connections over key lists with all four ciphers, then 1..12 reflections of recorded server->client streams presented as client streams "
         "(verbatim / truncated at 50..120 / extended), replay cache on and off. All server salts pairwise distinct; reflections for salts >= 20 bytes must end ERR_REPLAY_SERVER with no dial, no bytes, probe report. "
         "(Concurrent) 2..16 goroutines relay 20..300 connections each under the same 1..3 keys at once (one salt generator serves all connections of a key); every recorded response must decrypt, carry a distinct salt and be refused when reflected. "
         "(LongRun) 3000..9000 successive relayed connections of one process under 1..2 keys: all response salts pairwise distinct. "
         "Non-trivial = at least one reflection under a cipher with a salt of >= 20 bytes. Distinct = canonical case JSON.",
    assumptions=["aes-128-gcm (16-byte salt) is exempt as the statement says", "in-memory connections"],
    units=[unit("props", ["Salts", "Concurrent", "LongRun"], "C08", crash_is_violation=True)],
)
CHECKS["C20"] = dict(
    level="exploration",
    rule="(Class) rapid-generated client addresses (block boundaries of every special-purpose block, mapped, zoned, 4/16-byte, TCP/UDP/nil/port-less/garbage/hostname forms) x database behaviours "
         "(disabled, hit, empty answer, error) through GetIPInfoFromAddr/IP with a recording fake database; oracle by class alone from independent prefix tables. "
         "(Expo) generated traffic histories fed to the real collector in a pedantic registry from two client addresses of one class: no series name/label contains any textual form of the client IP or its ports, "
         "one location label per client across all families, and the two runs yield identical series and non-timing values. "
         "(Multi) 2..5 clients (several global IPv6, IPv4, mapped, local) interleaved in one history against a database that answers by address: per location label the gathered counts must equal the model counts, "
         "so a label can depend on nothing but the client's own address. Non-trivial = non-plain address form, non-global or mapped address, or non-hit database (Class); history with >=2 operations (Expo); "
         ">=2 global IPv6 clients or >=3 label groups (Multi).",
    assumptions=["'non-global' = loopback/unspecified/multicast/link-local/broadcast (the code's and existing tests' meaning; RFC1918 is looked up)", "zoned addresses may be XA or XL"],
    units=[unit("props", ["Class", "Expo", "Multi", "Concurrent", "E2E"], "C20")],
)

CHECKS["C17"] = dict(
    level="exploration",
    rule="(Ledger, added later) the location database fails for some clients (IPv6, odd last byte) in a third of the cases. (Concurrent) a wedge is the absence of progress for 15 s. " +
         "(Ledger) rapid-generated histories over the exported ServiceMetrics API of the real collector inside a testing/synctest bubble: 1..4 client IPs (v4, v6, mapped) x 1..3 keys; "
         "tcpOpen / tcpAuth / tcpClose / udpAdd / udpRemove / advance(0..2 h) / scrape; oracle = ledger of open intervals per (IP, key), checked at every scrape (1 us per reported segment), "
         "per-location total = per-key total, counters monotone. Non-trivial = a scrape inside >=2 overlapping tunnels of one (IP,key), or close -> scrape -> reopen. "
         "(Concurrent) generated workloads under the real clock: 2..12 worker goroutines opening/authenticating/closing tunnels for client pools of size 1..8 or all-new clients, fake location database with "
         "0..50 us latency, 1..4 goroutines gathering continuously, and burst workloads in which all workers are one client and start each round together; process must stay alive, Gather never errors, counters never decrease, final totals lie in the interval computed from the workers' timestamps. "
         "Every concurrent workload counts as non-trivial; it is journalled before it runs so that a process death yields its replay file.",
    assumptions=["fake-time engine: Go 1.26 timer semantics", "schedules are sampled, not enumerated"],
    units=[unit("props26", ["Ledger"], "C17"), unit("props", ["Concurrent"], "C17", crash_is_violation=True, wedge_is_violation=True)],
)

CHECKS["C12"] = dict(
    level="exploration",
    rule="(Packet, added later) the shared socket is on 127.0.0.1 or [::1] and every datagram is padded to 0..65527 bytes (65507 on IPv4); a delivery must carry the datagram's full size. " +
         "rapid-generated operation sequences on one ListenerManager address with 1..6 handles, for stream and for packet listeners on real sockets: acquire / acquire while another socket holds the address (must fail cleanly) / close(handle) / call(handle) "
         "(an accept or read left pending in its own goroutine) / send 1..3 connections or datagrams carrying unique tokens / settle; each case is executed 4 times because deliveries racing with closes are "
         "schedule-dependent. Invariants over the history: a token is delivered at most once, and exactly once while an open handle has a call pending; never to a call started after that handle's Close returned; "
         "pending and later calls on a closed handle return net.ErrClosed; after the last close the address can be bound again, no goroutine of the shared listener is left, and connections accepted by the socket "
         "but handed to nobody are closed (EOF/RST, not a hang). Non-trivial = a close while deliveries are in flight or calls are pending, deliveries spread over >=2 handles, or re-acquisition after full release.",
    assumptions=["interleavings are sampled by repetition, not enumerated", "virtual packet connections are closed at most once (documented precondition)"],
    units=[unit("props", ["Stream", "Packet", "Churn"], "C12")],
)

CHECKS["C13"] = dict(
    level="exploration",
    rule="rapid-generated plans for 2..12 goroutines, each a list of 1..8 ListenStream(a) / ListenPacket(a) / Close(own handle) operations over 1..3 addresses on one ListenerManager (real sockets), "
         "biased to listen-then-close so that the last close of an address races with listens on it; every fourth case starts each repetition with listens on an address another socket holds (they must fail and leave the manager usable); "
         "every case is repeated 50 times with a fresh manager and fresh ports. "
         "Oracle: all calls return within a 5 s watchdog and succeed (an 'address already in use' on a socket this process itself still holds means the manager lost track of it), and a final sequential "
         "listen+close on every address succeeds. On a watchdog hit the signature is derived from the goroutines blocked on a mutex in listeners.go. "
         "Non-trivial = at least two goroutines operate on the same address and kind. Distinct = canonical case JSON.",
    assumptions=["random schedules: the ABBA cycle fixed in /repo was hit in about 2% of racing pairs, so 50 repetitions per case give overwhelming detection probability for it; absence of other cycles is not established"],
    units=[unit("props", ["Deadlock"], "C13", wedge_is_violation=True)],
)

_CFG_GEN = ("rapid-generated configurations rendered to YAML and loaded by the real RunOutlineServer in an executor process: 0..4 services x 1..4 listeners (tcp/udp on 127.0.0.1 and [::1], "
            "ports from a per-case table of free ports) x 1..6 keys from a universe of 2..8 keys (all four ciphers, duplicated material inside a service under different ids, the same material in several services, "
            "per-service id aliases), 0..2 legacy ports with 1..4 legacy keys, both formats mixed. ")
CHECKS["C09"] = dict(
    level="exploration",
    rule=_CFG_GEN + "For every (endpoint, key material of the universe) pair the tester connects / sends a datagram encoded with that key and reads the executor's metric events for its own client port: "
         "authenticated iff the material belongs to the owning service (legacy: that port), attributed to the first id with that material in the service (legacy: any such id on the port); UDP attribution uses the "
         "local allowed address 192.0.2.2 when present. (Respelled) two owners naming one socket in different spellings (0.0.0.0/[::], 127.0.0.1/[::ffff:127.0.0.1], [::1]/[0:0:0:0:0:0:0:1], legacy port/wildcard service): "
         "refused, or if loaded the socket serves the keys of one owner only, every time (6 probes per key). Non-trivial = >=2 services/legacy ports, or a duplicated material inside a service. Distinct = canonical case JSON.",
    assumptions=["destination policy keeps probes from relaying: authentication is observed through the metric events", "a configuration that fails on a port another process took is discarded, never reported"],
    units=[unit("props", ["Config", "Respelled"], "C09", needs=["inpkg-main"])],
)
CHECKS["C10"] = dict(
    level="fault_enumeration",
    rule=_CFG_GEN + "A case is 1..6 reload attempts after an initial load, each with a fault from {none, file missing, malformed YAML, unknown listener type, hostname address, duplicate listener, "
         "bad cipher in service i key j, bad cipher in legacy key j, listener j of service i unbindable (the tester holds the port)} with i, j generated, so every stage at which loading can fail is reached, "
         "including after listeners of the new generation were acquired. In every fifth case the reloads are triggered the way operators do it: the file the server was started with is rewritten and the "
         "process gets SIGHUP (the outcome is read from the server's log, else from what is served within a bound). After every attempt: loadConfig fails iff a fault was injected, then the probe matrix over the union of all endpoints ever mentioned x all key "
         "materials: listening <=> in the last loaded configuration, authenticates <=> configured there. After Stop: every endpoint closed and the server's goroutines and sockets back to baseline. "
         "Non-trivial = a faulted attempt whose failure point lies after >=1 listener of the new generation was acquired, followed by >=1 further attempt. ('unreadable file' is not generated: the tests run as root.)",
    assumptions=["one executor process per case", "fault 'unreadable file' cannot be produced as root"],
    units=[unit("props", ["Reload"], "C10", needs=["inpkg-main"])],
)

CHECKS["C11"] = dict(
    level="exploration",
    rule=_CFG_GEN + "A case is an initial configuration and 1..6 reloads, each a freshly generated configuration to which one retained service (TCP+UDP listener on one address, key 'shared' first) is added. "
         "1..8 hammering goroutines connect continuously with the retained key (generated pacing), 0..3 goroutines send datagrams from never-reused local ports, and 0..4 relays (idle / mid-transfer / half-closed, "
         "0..40 KB before and 1..200 KB after the reloads, target on the local allowed address 192.0.2.2) are opened before the first reload. Oracle: no dial refused or reset; each connection has exactly one "
         "open/close report pair and authenticates as 'shared'; each datagram is processed at most once and authenticates; every relay completes byte-for-byte with status OK. "
         "Non-trivial = a hammer connection whose lifetime overlaps a reload, or a relay that outlives one. Distinct = canonical case JSON.",
    assumptions=["timings are sampled by hammering, not enumerated", "relays need a local address the default policy allows; skipped (recorded) otherwise", "unprocessed datagrams are counted inconclusive, not violations"],
    units=[unit("props", ["Hammer"], "C11", needs=["inpkg-main"])],
)

CHECKS["C14"] = dict(
    level="exploration",
    rule="(Deadlines, added later) a reply may be held in the relay to the client while the next write happens, the relay of a reply to the client may fail (that reply is lost, nothing else), and nothing may be torn down before the history asks for expiry; a deadline may be restored up to the latest instant any write so far allows. (Service) the assembled NewShadowsocksService with and without WithNatTimeout: default five minutes, a configured 300-500 ms timeout expires the association. " +
         "(Deadlines) rapid-generated histories of write(DNS|non-DNS, the outbound send succeeding or failing) / reply(from port 53|other) / pause on one NAT entry inside the in-package executor (package service) whose fake outbound socket records every "
         "SetReadDeadline; timeouts from {2 s .. 5 min} incl. 16999/17000/17001 ms. After every write the deadline is >= start-of-write + its timeout (17 s for port 53) and never moves earlier; the only permitted "
         "shortening is the fast close (exactly one write so far, it was DNS, first response from a port-53 sender), which must then happen; on expiry: removed once, socket closed, table empty. "
         "(Lifecycle, Long) batches of 4..24 (thorough 64) concurrent clients against the real PacketHandler on real sockets with NAT timeouts of 300-600 ms and scripts plain / dns-single / dns-multi / mixed / "
         "dns-then-plain / plain-reply-from-53 / recreate / unsendable (first datagram cannot be sent, client stays idle): alive before last-send + timeout (client-side instant, sound), removed and outbound port released within +2 s, single-DNS associations close right after the "
         "response, DNS associations still alive at +1.5 s (Long: +16.5 s) despite the short timeout, shutdown reclaims everything (goroutines/sockets back to baseline). "
         "Non-trivial = history with both DNS and non-DNS writes or a fast-close candidate (Deadlines); every batch (Lifecycle).",
    assumptions=["the fake outbound socket does not follow the wall clock: only an already-due deadline expires it", "real-time upper bounds are 2-3 s"],
    units=[unit("props", ["Deadlines"], "C14", needs=["inpkg-service"]), unit("props", ["Lifecycle", "Long", "Service"], "C14")],
)

CHECKS["C16"] = dict(
    level="exploration",
    rule=_UDP_GEN + "After the history the listener is shut down and the recorded UDPMetrics/UDPConnMetrics call log is compared, per association and in order, "
         "with the sizes and outcomes observed at the client and target sockets; the real Prometheus collector sits behind the recorder and what it exports "
         "(udp_nat_entries_added/removed, data_bytes{proto=udp} per key and direction, udp_packets_from_client_per_location per status) must add up to the same calls. "
         "Non-trivial = an association with >=2 client datagrams or >=1 reply. "
         "Distinct = canonical case JSON.",
    assumptions=["interleaving between client-datagram and reply reports of one association is not asserted (two goroutines)"],
    units=[unit("props", ["Metrics", "MetricsExpiry"], "C16")],
)

CHECKS["C05"] = dict(
    level="exploration",
    rule="(Func) rapid-generated addresses: near (+-3) the first/last address of every IANA special-purpose block, inside blocks, uniformly random IPv4/IPv6, "
         "in 4-byte, 16-byte and IPv4-mapped forms, judged by an independent prefix-table oracle (must-reject / must-accept / not judged). "
         "(Sweep) enumeration of IPv4: quick = every block boundary +-300 and a stride of 4099; thorough = all 2^32 addresses in both byte forms (exhaustive for that sub-domain). "
         "(TCP, UDP) generated SOCKS destinations through the default dialer/validator: IPv4/IPv6/mapped literals, empty and IP-literal domains (incl. zoned link-local), "
         "hostnames answered by an in-process DNS with 0..4 mixed answers, non-local private/CGNAT/multicast literals; UDP: the forbidden datagram at position 1..7 of a live association. "
         "(Shared) one packet handler serving 2..4 UDP sockets at once, clients on even sockets flooding an allowed destination and on odd sockets a refused one (same port): nothing may reach the refused one. "
         "Sinks are bound on every local forbidden address; only an observed arrival is a violation; the local allowed address 192.0.2.2 is the positive control. "
         "Non-trivial = address within 3 of a block boundary or in mapped/16-byte form (Func); must-reject or boundary address (Sweep, distinct by construction); "
         "mapped/zoned/IP-literal-domain/empty/multi-answer destination or forbidden datagram at position >=2 (TCP/UDP).",
    assumptions=["non-local forbidden destinations have no sink: judged by reported status only", "address classes available on this host are detected at run time"],
    units=[unit("props", ["FirstUse"], "C05"), unit("props-race", ["FirstUse"], "C05", crash_is_violation=True), unit("props", ["Func", "TCP", "UDP", "Shared"], "C05"), unit("props", ["Sweep"], "C05", shards=(4, 16), timeout=(240, 3000))],
)

CHECKS["C06"] = dict(
    level="exploration",
    rule="(Real, added later) the listener is closed 40..150 ms into a batch once every probe connection was accepted; probe kind replay_burst = 2..8 identical copies of a fresh handshake at once with the replay history on (at most one reaches a target, all stay open); cases run with the garbage collector off. (FakeTime, added later) the serving context is cancelled at a generated fake time. " +
         "(FakeTime) rapid-generated probes against the real StreamHandler with the production 59 s timeout inside a testing/synctest bubble per case: "
         "random bytes of length 0..70000 (biased to 49/50/51 and salt+18 boundaries), valid streams truncated at any offset, single bit flips anywhere in the first 130 bytes, "
         "foreign-key streams, exact replays (cache on), reflected server salts, bad address type, corrupted address chunk, incomplete address; key lists of 1..12 (thorough 100) keys, "
         "all ciphers; client stays open / FINs at a generated instant / keeps trickling bytes; generated write segmentation with fake-time gaps. Deadlines compared with ==. "
         "(Real) batches of up to 32 concurrent probes over loopback TCP with a 250 ms timeout, plus post-dial corruption (length block / length tag / payload / payload tag of a mid-relay chunk, more client data following) "
         "against a target that never closes and against an ordinary target that closes when the proxy half-closes. "
         "Non-trivial = probe derived from a valid stream (truncate/flip/replay/reflect/foreign key/invalid-after-auth), or random bytes of length 48..52 or >66. "
         "Complete valid requests produced by a mutation (e.g. a flip beyond the header) are classified by the reference codec and not judged.",
    assumptions=["fake-time engine runs under go1.26.8 timer semantics (asynctimerchan=0)", "real-socket upper bounds are reported only if they reproduce 3 times in isolation"],
    units=[unit("props26", ["FakeTime"], "C06"), unit("props", ["Real"], "C06"), unit("props", ["AcrossReload"], "C06", needs=["inpkg-main"])],
)

CHECKS["C07"] = dict(
    level="exploration",
    rule="(Cache) rapid state machine on NewReplayCache(n), n in {0,1,2,3,4,5,8,16,50,1000,19999,20000}: add(label) / resize(m) / burst(K concurrent copies of one handshake), labels from alphabets of "
         "2..30 plus fresh ones so repeats at every distance occur; labels map injectively to (key id, 32/24/16-byte salt). Model = list of checks with the capacity in force; a repeat at distance d <= min capacity "
         "over the interval must be refused, a never-seen label must be accepted (an unexplained refusal is re-tried under two re-randomisations of all salts), a burst has exactly one winner. "
         "(Server) two StreamHandlers with different key lists sharing one cache, handshakes presented on either. "
         "Non-trivial = a repeat at distance within +-1 of the capacity, a burst with the cache enabled, or a handshake presented on both services. Distinct = canonical case JSON.",
    assumptions=["the 32-bit checksum construction is not modelled: collisions are handled by re-randomisation (rule 4)", "(Reload) the real main package with -replay_history N in the executor: two retained services sharing one key, handshakes presented on either, interleaved with generated reloads; non-trivial = a refused replay whose earlier presentation was on the other service or before a reload"],
    units=[unit("props", ["Cache", "Server"], "C07"), unit("props", ["Reload"], "C07", needs=["inpkg-main"])],
)
CHECKS["C08"] = dict(
    level="exploration",
    rule="rapid-generated runs of 2..40 (thorough 300) relayed connections over key lists with all four ciphers, then 1..12 reflections of recorded server->client streams presented as client streams "
         "(verbatim / truncated at 50..120 / extended), replay cache on and off. All server salts pairwise distinct; reflections for salts >= 20 bytes must end ERR_REPLAY_SERVER with no dial, no bytes, probe report. "
         "(Concurrent) 2..16 goroutines relay 20..300 connections each under the same 1..3 keys at once (one salt generator serves all connections of a key); every recorded response must decrypt, carry a distinct salt and be refused when reflected. "
         "(LongRun) 3000..9000 successive relayed connections of one process under 1..2 keys: all response salts pairwise distinct. "
         "Non-trivial = at least one reflection under a cipher with a salt of >= 20 bytes. Distinct = canonical case JSON.",
    assumptions=["aes-128-gcm (16-byte salt) is exempt as the statement says", "in-memory connections"],
    units=[unit("props", ["Salts", "Concurrent", "LongRun", "Volume"], "C08", crash_is_violation=True)],
)
CHECKS["C20"] = dict(
    level="exploration",
    rule="(Class) rapid-generated client addresses (block boundaries of every special-purpose block, mapped, zoned, 4/16-byte, TCP/UDP/nil/port-less/garbage/hostname forms) x database behaviours "
         "(disabled, hit, empty answer, error) through GetIPInfoFromAddr/IP with a recording fake database; oracle by class alone from independent prefix tables. "
         "(Expo) generated traffic histories fed to the real collector in a pedantic registry from two client addresses of one class: no series name/label contains any textual form of the client IP or its ports, "
         "one location label per client across all families, and the two runs yield identical series and non-timing values. "
         "(Multi) 2..5 clients (several global IPv6, IPv4, mapped, local) interleaved in one history against a database that answers by address: per location label the gathered counts must equal the model counts, "
         "so a label can depend on nothing but the client's own address. Non-trivial = non-plain address form, non-global or mapped address, or non-hit database (Class); history with >=2 operations (Expo); "
         ">=2 global IPv6 clients or >=3 label groups (Multi).",
    assumptions=["'non-global' = loopback/unspecified/multicast/link-local/broadcast (the code's and existing tests' meaning; RFC1918 is looked up)", "zoned addresses may be XA or XL"],
    units=[unit("props", ["Class", "Expo", "Multi", "Concurrent", "E2E"], "C20")],
)

CHECKS["C17"] = dict(
    level="exploration",
    rule="(Ledger) rapid-generated histories over the exported ServiceMetrics API of the real collector inside a testing/synctest bubble: 1..4 client IPs (v4, v6, mapped) x 1..3 keys; "
         "tcpOpen / tcpAuth / tcpClose / udpAdd / udpRemove / advance(0..2 h) / scrape; oracle = ledger of open intervals per (IP, key), checked at every scrape (1 us per reported segment), "
         "per-location total = per-key total, counters monotone. Non-trivial = a scrape inside >=2 overlapping tunnels of one (IP,key), or close -> scrape -> reopen. "
         "(Concurrent) generated workloads under the real clock: 2..12 worker goroutines opening/authenticating/closing tunnels for client pools of size 1..8 or all-new clients, fake location database with "
         "0..50 us latency, 1..4 goroutines gathering continuously, and burst workloads in which all workers are one client and start each round together; process must stay alive, Gather never errors, counters never decrease, final totals lie in the interval computed from the workers' timestamps. "
         "Every concurrent workload counts as non-trivial; it is journalled before it runs so that a process death yields its replay file.",
    assumptions=["fake-time engine: Go 1.26 timer semantics", "schedules are sampled, not enumerated"],
    units=[unit("props26", ["Ledger", "E2E"], "C17"), unit("props", ["Concurrent"], "C17", crash_is_violation=True, wedge_is_violation=True)],
)

CHECKS["C12"] = dict(
    level="exploration",
    rule="(Packet, added later) the shared socket is on 127.0.0.1 or [::1] and every datagram is padded to 0..65527 bytes (65507 on IPv4); a delivery must carry the datagram's full size. " +
         "rapid-generated operation sequences on one ListenerManager address with 1..6 handles, for stream and for packet listeners on real sockets: acquire / acquire while another socket holds the address (must fail cleanly) / close(handle) / call(handle) "
         "(an accept or read left pending in its own goroutine) / send 1..3 connections or datagrams carrying unique tokens / settle; each case is executed 4 times because deliveries racing with closes are "
         "schedule-dependent. Invariants over the history: a token is delivered at most once, and exactly once while an open handle has a call pending; never to a call started after that handle's Close returned; "
         "pending and later calls on a closed handle return net.ErrClosed; after the last close the address can be bound again, no goroutine of the shared listener is left, and connections accepted by the socket "
         "but handed to nobody are closed (EOF/RST, not a hang). Non-trivial = a close while deliveries are in flight or calls are pending, deliveries spread over >=2 handles, or re-acquisition after full release.",
    assumptions=["interleavings are sampled by repetition, not enumerated", "virtual packet connections are closed at most once (documented precondition)"],
    units=[unit("props", ["Stream", "Packet", "Churn"], "C12"), unit("props", ["AcceptFault"], "C12", shards=(2, 8))],
)

CHECKS["C13"] = dict(
    level="exploration",
    rule="rapid-generated plans for 2..12 goroutines, each a list of 1..8 ListenStream(a) / ListenPacket(a) / Close(own handle) operations over 1..3 addresses on one ListenerManager (real sockets), "
         "biased to listen-then-close so that the last close of an address races with listens on it; every fourth case starts each repetition with listens on an address another socket holds (they must fail and leave the manager usable); "
         "every case is repeated 50 times with a fresh manager and fresh ports. "
         "Oracle: all calls return within a 5 s watchdog and succeed (an 'address already in use' on a socket this process itself still holds means the manager lost track of it), and a final sequential "
         "listen+close on every address succeeds. On a watchdog hit the signature is derived from the goroutines blocked on a mutex in listeners.go. "
         "Non-trivial = at least two goroutines operate on the same address and kind. Distinct = canonical case JSON.",
    assumptions=["random schedules: the ABBA cycle fixed in /repo was hit in about 2% of racing pairs, so 50 repetitions per case give overwhelming detection probability for it; absence of other cycles is not established"],
    units=[unit("props", ["Deadlock"], "C13", wedge_is_violation=True)],
)

_CFG_GEN = ("rapid-generated configurations rendered to YAML and loaded by the real RunOutlineServer in an executor process: 0..4 services x 1..4 listeners (tcp/udp on 127.0.0.1 and [::1], "
            "ports from a per-case table of free ports) x 1..6 keys from a universe of 2..8 keys (all four ciphers, duplicated material inside a service under different ids, the same material in several services, "
            "per-service id aliases), 0..2 legacy ports with 1..4 legacy keys, both formats mixed. ")
CHECKS["C09"] = dict(
    level="exploration",
    rule=_CFG_GEN + "For every (endpoint, key material of the universe) pair the tester connects / sends a datagram encoded with that key and reads the executor's metric events for its own client port: "
         "authenticated iff the material belongs to the owning service (legacy: that port), attributed to the first id with that material in the service (legacy: any such id on the port); UDP attribution uses the "
         "local allowed address 192.0.2.2 when present. (Respelled) two owners naming one socket in different spellings (0.0.0.0/[::], 127.0.0.1/[::ffff:127.0.0.1], [::1]/[0:0:0:0:0:0:0:1], legacy port/wildcard service): "
         "refused, or if loaded the socket serves the keys of one owner only, every time (6 probes per key). Non-trivial = >=2 services/legacy ports, or a duplicated material inside a service. Distinct = canonical case JSON.",
    assumptions=["destination policy keeps probes from relaying: authentication is observed through the metric events", "a configuration that fails on a port another process took is discarded, never reported"],
    units=[unit("props", ["Config", "Respelled"], "C09", needs=["inpkg-main"])],
)
CHECKS["C10"] = dict(
    level="fault_enumeration",
    rule=_CFG_GEN + "A case is 1..6 reload attempts after an initial load, each with a fault from {none, file missing, malformed YAML, unknown listener type, hostname address, duplicate listener, "
         "bad cipher in service i key j, bad cipher in legacy key j, listener j of service i unbindable (the tester holds the port)} with i, j generated, so every stage at which loading can fail is reached, "
         "including after listeners of the new generation were acquired. In every fifth case the reloads are triggered the way operators do it: the file the server was started with is rewritten and the "
         "process gets SIGHUP (the outcome is read from the server's log, else from what is served within a bound). After every attempt: loadConfig fails iff a fault was injected, then the probe matrix over the union of all endpoints ever mentioned x all key "
         "materials: listening <=> in the last loaded configuration, authenticates <=> configured there. After Stop: every endpoint closed and the server's goroutines and sockets back to baseline. "
         "Non-trivial = a faulted attempt whose failure point lies after >=1 listener of the new generation was acquired, followed by >=1 further attempt. ('unreadable file' is not generated: the tests run as root.)",
    assumptions=["one executor process per case", "fault 'unreadable file' cannot be produced as root"],
    units=[unit("props", ["Reload"], "C10", needs=["inpkg-main"])],
)

CHECKS["C11"] = dict(
    level="exploration",
    rule=_CFG_GEN + "A case is an initial configuration and 1..6 reloads, each a freshly generated configuration to which one retained service (TCP+UDP listener on one address, key 'shared' first) is added. "
         "1..8 hammering goroutines connect continuously with the retained key (generated pacing), 0..3 goroutines send datagrams from never-reused local ports, and 0..4 relays (idle / mid-transfer / half-closed, "
         "0..40 KB before and 1..200 KB after the reloads, target on the local allowed address 192.0.2.2) are opened before the first reload. Oracle: no dial refused or reset; each connection has exactly one "
         "open/close report pair and authenticates as 'shared'; each datagram is processed at most once and authenticates; every relay completes byte-for-byte with status OK. "
         "Non-trivial = a hammer connection whose lifetime overlaps a reload, or a relay that outlives one. Distinct = canonical case JSON.",
    assumptions=["timings are sampled by hammering, not enumerated", "relays need a local address the default policy allows; skipped (recorded) otherwise", "unprocessed datagrams are counted inconclusive, not violations"],
    units=[unit("props", ["Hammer"], "C11", needs=["inpkg-main"])],
)

CHECKS["C14"] = dict(
    level="exploration",
    rule="(Deadlines, added later) a reply may be held in the relay to the client while the next write happens, the relay of a reply to the client may fail (that reply is lost, nothing else), and nothing may be torn down before the history asks for expiry; a deadline may be restored up to the latest instant any write so far allows. (Service) the assembled NewShadowsocksService with and without WithNatTimeout: default five minutes, a configured 300-500 ms timeout expires the association. " +
         "(Deadlines) rapid-generated histories of write(DNS|non-DNS, the outbound send succeeding or failing) / reply(from port 53|other) / pause on one NAT entry inside the in-package executor (package service) whose fake outbound socket records every "
         "SetReadDeadline; timeouts from {2 s .. 5 min} incl. 16999/17000/17001 ms. After every write the deadline is >= start-of-write + its timeout (17 s for port 53) and never moves earlier; the only permitted "
         "shortening is the fast close (exactly one write so far, it was DNS, first response from a port-53 sender), which must then happen; on expiry: removed once, socket closed, table empty. "
         "(Lifecycle, Long) batches of 4..24 (thorough 64) concurrent clients against the real PacketHandler on real sockets with NAT timeouts of 300-600 ms and scripts plain / dns-single / dns-multi / mixed / "
         "dns-then-plain / plain-reply-from-53 / recreate / unsendable (first datagram cannot be sent, client stays idle): alive before last-send + timeout (client-side instant, sound), removed and outbound port released within +2 s, single-DNS associations close right after the "
         "response, DNS associations still alive at +1.5 s (Long: +16.5 s) despite the short timeout, shutdown reclaims everything (goroutines/sockets back to baseline). "
         "Non-trivial = history with both DNS and non-DNS writes or a fast-close candidate (Deadlines); every batch (Lifecycle).",
    assumptions=["the fake outbound socket does not follow the wall clock: only an already-due deadline expires it", "real-time upper bounds are 2-3 s"],
    units=[unit("props", ["Deadlines"], "C14", needs=["inpkg-service"]), unit("props", ["Lifecycle", "Long", "Service"], "C14")],
)

CHECKS["C15"] = dict(
    level="exploration",
    rule="rapid-generated cases of 1..24 concurrent TCP connections through the real StreamServe + StreamHandler over loopback, each with a generated outcome: complete relay (either side closing first), "
         "random bytes, client replay, reflected server salt, bad address type, connect failure, client reset, target reset, corrupt chunk mid-relay; 0..70000 bytes each way, chunk sizes 1..16383, "
         "all ciphers, replay cache on/off; a reflected handshake may be presented twice. A recording ServiceMetrics (also feeding the real Prometheus collector in a pedantic registry) gives the per-connection call sequence, compared with byte counts "
         "measured at the raw client and target sockets: exactly one close, last; authentication reported iff the reference says the stream authenticates, with an id of that material; a probe report iff "
         "authentication failed, carrying the bytes the client sent; status in the admissible set of the scenario; four counters equal to the wire for completed connections and never above it otherwise; "
         "gathered opened/closed/data_bytes consistent with the call log. Non-trivial = any scenario other than a plain small relay, or >16 KB transferred.",
    assumptions=["statuses of reset scenarios are sets (a reset may surface on either copy direction)"],
    units=[unit("props", ["Wire", "Mem"], "C15")],
)

CHECKS["C18"] = dict(
    level="exploration",
    rule="Every case is journalled before it runs (a dead shard process is a violation whose replay file is the journalled case). "
         "(TCP) 1..10 hostile connections per case through the real StreamServe: raw bytes (0..70000), authenticated plaintext from a header grammar (address type 0..255, hosts incl. empty, 255-byte, "
         "zoned and bracketed literals, unresolvable names, declared domain lengths 0/1/128/255, ports 0/1/53/65535, truncation at every byte), hostile chunk framing (zero-length chunk, length with high bits, "
         "oversized and mismatched lengths, truncated chunk); generated termination order (client close / reset / hold / target close) and listener shutdown after k connections. "
         "(UDP) 1..14 operations: raw datagrams of 0..65507 bytes, authenticated plaintext from the same grammar, valid datagrams, replies of 0..65507 bytes from a sender on every local address class "
         "(IPv4/IPv6 loopback, 192.0.2.2, ULA, zoned link-local), listener shutdown at any point. Oracle: process alive, no recovered-panic log record, a canary connection/datagram is still served, "
         "StreamServe returns only with zero handlers in flight, Handle returns, and the server's goroutines and sockets are back to the per-case baseline within 4 s. "
         "Non-trivial = input that reaches address parsing (authenticates), or a reply from a non-IPv4-loopback source, or a shutdown with work in flight. "
         "(FuzzTCP, FuzzUDP) byte strings used as authenticated plaintext (address header + payload, fuzzer-chosen chunk plan) through the TCP handler with in-memory connections, and as datagrams (raw or authenticated, "
         "first-packet and known-association paths) through the packet handler on an in-memory socket with a loopback-only validator; rapid properties in both tiers, coverage-guided native fuzz targets (150 s each) in the thorough tier.",
    assumptions=["destinations in generated headers are local only (no egress); unresolvable names are answered by the in-process DNS", "address classes absent on the host are skipped and counted"],
    units=[unit("props", ["TCP", "UDP", "ServeStop", "FuzzTCP", "FuzzUDP"], "C18", crash_is_violation=True, wedge_is_violation=True),
           dict(bin="props-fuzz", tests=["FuzzTCP"], run="^$", fuzz="FuzzC18TCP", fuzztime="150s", shards=(1, 1), timeout=(400, 900), tiers=["thorough"], crash_is_violation=True),
           dict(bin="props-fuzz", tests=["FuzzUDP"], run="^$", fuzz="FuzzC18UDP", fuzztime="150s", shards=(1, 1), timeout=(400, 900), tiers=["thorough"], crash_is_violation=True)],
)

CHECKS["C19"] = dict(
    level="exploration",
    rule="Generated concurrent workloads built with the Go race detector (GORACE=halt_on_error=1; a report kills the shard and the journalled case becomes the replay file), each with a sequential-consistency oracle: "
         "(KeyList) 2..16 goroutines authenticating from different client IPs while one goroutine replaces the list 5..100 times with lists that always contain key K and never key L: K never fails, L never succeeds; "
         "(ReplayCache) 2..16 goroutines presenting the same 20..200 handshakes while another resizes among capacities >= the number of handshakes: exactly one winner each; "
         "(NAT) 2..24 concurrent UDP clients x 1..20 datagrams through the real PacketHandler with expiries and echoes: every datagram forwarded, every reply relayed, one removal per association; "
         "(Listeners, SharedDelivery) the concurrent listen/close plans of C13 and the delivery state machine of C12; (Collectors) C17's workers x scrapers workload; (TCPService) C15's concurrent connection mixes. "
         "Every workload counts as non-trivial; distinct = canonical case JSON.",
    assumptions=["the race detector only sees interleavings that occur: dynamic, not exhaustive"],
    units=[unit("props-race", ["KeyList", "ReplayCache", "ReplayCacheZero", "ReplayRotation", "NAT", "Listeners", "SharedDelivery", "Collectors", "TCPService", "PacketService"], "C19", crash_is_violation=True, wedge_is_violation=True, timeout=(400, 2400))],
)

# ---------------------------------------------------------------------------------------------------
# Generator dimensions and oracles added after the first build (sensitivity rounds 3-5 and the mutant
# campaign, DESIGN 7.5-7.7). Kept here, in one place, and prefixed to the rule text that goes into
# every evidence file.
_ADDED = {
    "C01": "(Auth) slowconnect = a key-list update lands between connect and first bytes; every fourth stream has a salt that opens like HTTP/TLS/SSH. "
           "(Concurrent) 2..12 workers on 2..4 client addresses use one key of a 3..3000-key list at the same moment: every lookup authenticates.",
    "C02": "(Relay) every other case uses a salt that opens like another protocol. (Concurrent) 2..16 workers x 10..120 connections at once through one handler. "
           "(Duplex) 12..40 MB each way, the client uploads without reading while the target pushes at once: the upload completes, then everything is read.",
    "C03": "(Shared) 2..4 UDP sockets on one handler, every datagram from a fresh client socket, payloads checked at the target. "
           "(worlds) update may land during a TCP handshake of the same key list under a key being dropped; one client on the host's link-local (zoned) address; a target on port 53 with the DNS fast close modelled.",
    "C04": "(worlds) see C03: link-local client, port-53 target, update during a TCP handshake, slow removal-report sink.",
    "C05": "(FirstUse) the first destination checks of a fresh process made by 4..16 goroutines at once, as a unit of its own in the plain and in the -race engine.",
    "C06": "(AcrossReload) the real server with replay history on: a handshake accepted before 0..3 reloads is presented again and must get nothing and stay open.",
    "C07": "(Server) every presentation differs after the salt; in a third of the cases the history is 0 when the services are built and enabled afterwards.",
    "C08": "(Salts) a third of the cases reflect to a key list rebuilt from the same keys.",
    "C09": "(Config) every fourth configuration is loaded after another one and a reload that failed while starting; key universes contain ids that go with a secret under two ciphers, and secrets that differ only in letter case. ",
    "C10": "badtype also = a known type in another spelling (TCP, Udp, 'tcp '). ",
    "C11": "reloads that must fail (an address held by the tester) while hammering; pad_keys = 3000/15000 further keys in the retained service. ",
    "C13": "dial = clients connect and nobody accepts; one listen in eight under another spelling of the address; one case in ten opens 40..160 addresses and closes them in a row. ",
    "C15": "(added) scenario target_first_upload; connect_fail with unresolvable host names of 1..255 bytes; a slow sink for the cipher-search metric; data_bytes_per_location adds up to data_bytes. ",
    "C16": "(worlds) see C03; the answer of a single DNS query (fast close) must be reported. ",
    "C17": "(Ledger) lookups fail for some clients in a third of the cases; (Concurrent) every client network has its own AS number. ",
    "C18": "(ServeStop) the accept function closes the listener right after the k-th accept: StreamServe returns only when every accepted connection's handler has. (UDP) hostile datagrams also as the first datagram of other client addresses; cases run with the garbage collector off. ",
    "C19": "(ReplayCacheZero) recorded handshakes stay refused while the cache is switched off and on; (PacketService) one packet handler on several sockets; collectors see a new AS number per client network. ",
    "C20": "(Concurrent) scrapers against workers with a slow database: no empty location while lookup is enabled. (E2E) the real stream service in front of the real collector, clients ending by FIN, reset or silence: nothing exported contains their IP or ':port'. (Class) typed addresses whose IP field is not an IP address. ",
}
for _k, _v in _ADDED.items():
    CHECKS[_k]["rule"] = _v.strip() + " " + CHECKS[_k]["rule"]
_ADDED6 = {
    "C01": "(Concurrent, round 6) in half of the cases the key list is replaced over and over while the workers look up, alternately by a list of another length (1, n-1, n/2, n+1, n+7, 2n keys) and the original one, the shared key in both; every third lookup is then 60 random bytes and must be refused without a panic. ",
    "C02": "(Quiet, fake-time engine) the real StreamHandler between two in-memory duplex conns inside a testing/synctest bubble: scripts of client sends, target sends, either half-close and pauses of 1 ms..4 h (incl. 9.999/10/10.001 s, 59/59.001/60 s); after every step the target holds exactly the client's plaintext and the client decrypts exactly the target's bytes, and each side has seen end-of-stream iff the other half-closed. Non-trivial (Quiet) = a pause of >=10 s while exactly one direction is closed. (Mem) the real StreamHandler between in-memory conns that return at most 1..70000 bytes per Read and may deliver their last bytes together with io.EOF, on the client and on the target side: the target receives exactly the payload, the client decrypts exactly the target's stream. ",
    "C12": "(AcceptFault) a unit of its own (fresh process per shard): with 1..4 handles accepting, 1..4 client sockets created beforehand connect while RLIMIT_NOFILE is lowered to 1, so that the shared accept fails with EMFILE for 1..20 ms with connections waiting in the backlog; after the limit is restored every waiting connection and 0..3 later ones are delivered exactly once and no handle that nobody closed reports a closed listener; 1..3 rounds. Non-trivial (AcceptFault) = the handles really saw accept errors. ",
    "C14": "(Lifecycle) script otherkey: after each datagram of a live association the same client socket sends one under the other configured key; the association's lower and upper bounds stand and at shutdown every association ever reported is removed exactly once with no goroutine or socket left. ",
    "C15": "(Mem) the real StreamHandler on an in-memory client conn that returns at most 1..70000 bytes per Read and, in half of the cases, its last bytes together with io.EOF; valid streams (0..50000 bytes each way, status OK, all four counters equal to what the conns carried) and random streams of 0..20000 bytes (probe report and client->proxy counter equal to the stream's length); the target's conn likewise returns at most 1..40000 bytes per Read and may deliver its last bytes with io.EOF, and the client must be able to decrypt the target's whole stream. Non-trivial (Mem) = last bytes with io.EOF or reads shorter than 51 bytes. ",
    "C16": "(worlds) a reply too large to be relayed is reported with a status other than OK and with 0 bytes sent to the client. ",
    "C17": "(Ledger) num_ids (a quarter of the cases): the keys are called 23, 3 and 1 and the clients are 20.0.0.1, 20.0.0.12 (and 20.0.0.123), so that address and id of different clients read alike when joined. (E2E, fake-time engine) 1..8 successive connections through the real StreamHandler (replay history 0/5/100) reporting to the real collector: valid, random, a replay of an accepted handshake, the server's own response stream sent back; the client stays 0 ms..1 h; tunnel_time_seconds per key must equal the time authenticated connections of that key were open (refused connections held open contribute nothing). Non-trivial (E2E) = a connection that does not authenticate is held for >=1 s. ",
    "C18": "(ServeStop) handlers of generated connections fail (panic) instead of returning; once StreamServe has returned every client must see its connection end within 3 s (the server-side conns stay referenced by the test, so no finalizer closes a forgotten socket). ",
    "C08": "(Volume) 40 (thorough 1000) generated keys with 24/32-byte salts; the key's own salt generator is asked for 250 000 salts each (10 million in the quick tier) and every salt must be recognised as the server's own for that key, differ from its predecessor, and (one in 1024) not be recognised by a key with another secret. Non-trivial (Volume) = the batch contained salts that open like another protocol. ",
    "C11": "id_clash (a third of the cases): every configuration has one more service, rendered after the retained one, on an address of its own, whose key carries the retained key's id with another cipher and secret. ",
    "C19": "(ReplayRotation) histories of 8..20000 handshakes: rounds of K sequential adds (K in 1..2N+3, so that the burst meets every fill level), a burst of M < N/2 adds from 2..16 goroutines at once, then the most recent of the K presented again: in every sequential order of the burst they are within the last N checked, so each must be refused. ",
    "C20": "(Multi) access-key ids per operation (also small decimal numbers), tunnels that stay open to the end of the history (overlapping lifetimes), and in a third of the cases two clients whose (address, key id) pairs read the same when written one after the other (20.0.0.1 + 23 / 20.0.0.12 + 3). ",
}
for _k, _v in _ADDED6.items():
    CHECKS[_k]["rule"] = _v.strip() + " " + CHECKS[_k]["rule"]
