#!/usr/bin/env python3
"""Regenerates the table of seeded changes in DESIGN.md (between the markers) from /verif/seeded/*/meta.json."""
import glob, json, os, re
rows = []
for d in sorted(glob.glob('/verif/seeded/*')):
    m = json.load(open(d + '/meta.json'))
    chk = m.get('checks_against_patch', {})
    caught = [k for k, v in chk.items() if v.get('exit') == 1]
    green = [k for k, v in chk.items() if v.get('exit') == 0]
    summ = re.sub(r'\s+', ' ', m['summary']).replace('|', '/')[:170]
    missed = False
    hist = m.get('history', [])
    for h in ([hist] if isinstance(hist, str) else hist):
        if isinstance(h, str):
            missed = True  # hand-written note of rounds 1-2: the seed was missed and a check strengthened
        elif (h.get('checks_against_patch') or {}).get(m['property'], {}).get('exit') == 0:
            missed = True
    first = 'missed at first, check strengthened' if missed else ''
    if m.get('rebased'):
        first = (first + '; ' if first else '') + 'patch rebased on a later fix'
    rows.append('| %s | %s | %s… | %s | %s | %s |' % (os.path.basename(d), m['property'], summ, ', '.join(caught) or '—', ', '.join(green) or '—', first))
table = '| seed | property | what the change does | caught by (quick tier) | other check run, stays green | note |\n|---|---|---|---|---|---|\n' + '\n'.join(rows) + '\n'
p = '/verif/DESIGN.md'
s = open(p).read()
a, b = '<!-- seedtable:begin -->', '<!-- seedtable:end -->'
if a in s:
    s = s[:s.index(a) + len(a)] + '\n' + table + s[s.index(b):]
else:
    # first time: replace the hand-written table
    i = s.index('| seed | property | what the change does')
    j = s.index('\nSeven seeds were')
    s = s[:i] + a + '\n' + table + b + '\n' + s[j:]
open(p, 'w').write(s)
print(len(rows), 'seeds')
