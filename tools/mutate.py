#!/usr/bin/env python3
"""Systematic sensitivity analysis: syntactic mutants of the repository against the quick tier.

  tools/mutate.py plan   [--files f1,f2,...]          writes out/mutants/plan.jsonl (all mutation points, log statements excluded)
  tools/mutate.py run    --worker K --of N [--limit M] runs the K-th slice of the plan (own scratch worktree of /repo and own copy of /verif under /tmp)
  tools/mutate.py report                                summarises out/mutants/results.jsonl

A mutant is (file, operator, position). For each: build (else 'uncompilable'), the repository's own tests (a failure =
'killed-by-existing-tests': such a change would not "still pass the existing tests"), then the quick checks of the
properties mapped to the file, most specific first; the first check that exits 1 kills it; if all exit 0 it 'survived'.
Nothing is ever written to /repo or committed; scratch trees live under /tmp and are removed at the end.
"""
import fcntl, json, os, re, shutil, subprocess, sys, time

V = "/verif"
ENV = dict(os.environ, GOFLAGS="-mod=mod", GOPROXY="off", GOSUMDB="off", GOTOOLCHAIN="local")
KNOWN_FAIL = {"TestIPInfoMap", "TestIPInfoMapASNOnly", "TestIPInfoMapCountryOnly", "TestTestDataExists"}
FILES = {
    "service/tcp.go": ["C06", "C02", "C15", "C01", "C08", "C07", "C18", "C05"],
    "service/udp.go": ["C03", "C16", "C14", "C04", "C18", "C05"],
    "service/listeners.go": ["C12", "C13", "C11", "C10", "C19"],
    "service/cipher_list.go": ["C01", "C03", "C19", "C09"],
    "service/replay.go": ["C07", "C19", "C06", "C15"],
    "service/server_salt.go": ["C08", "C06", "C15"],
    "service/shadowsocks.go": ["C14", "C09", "C11", "C15", "C16"],
    "prometheus/metrics.go": ["C17", "C20", "C15", "C16", "C19"],
    "ipinfo/ipinfo.go": ["C20"],
    "net/private_net.go": ["C05"],
    "net/stream.go": ["C02", "C15"],
    "net/error.go": ["C15", "C16", "C05"],
    "cmd/outline-ss-server/main.go": ["C10", "C09", "C11", "C20"],
    "cmd/outline-ss-server/config.go": ["C09", "C10"],
    "cmd/outline-ss-server/metrics.go": ["C20", "C09"],
    "service/metrics/metrics.go": ["C15", "C16"],
}
LOGRE = re.compile(r"slog\.|[lL]ogger|\.Log\(|\.LogAttrs\(|debugUDP|debugTCP|\.Debug\(|\.Warn\(|\.Info\(|\.Error\(|l\.Enabled|logging\.|Debugf|Infof|Warningf|Errorf")


def sh(cmd, cwd, timeout=900, env=ENV):
    try:
        p = subprocess.run(cmd, cwd=cwd, env=env, shell=True, stdout=subprocess.PIPE, stderr=subprocess.STDOUT, timeout=timeout)
        return p.returncode, p.stdout.decode(errors="replace")
    except subprocess.TimeoutExpired as e:
        return 124, (e.stdout or b"").decode(errors="replace") + "\nTIMEOUT"


def plan(files, ops2=False, plan_name="plan.jsonl"):
    os.makedirs(V + "/out/mutants", exist_ok=True)
    sh("go build -o /verif/out/mutgen .", V + "/tools/mutgen")
    n = 0
    with open(V + "/out/mutants/" + plan_name, "w") as out:
        for f in files:
            rc, txt = sh("/verif/out/mutgen %s -file /repo/%s -list" % ("-ops2" if ops2 else "", f), V)
            for line in txt.splitlines():
                if not line.startswith("{"):
                    continue
                p = json.loads(line)
                if LOGRE.search(p["desc"]):
                    continue
                p["file"] = f
                p["id"] = "%s#%s%d" % (f, "s" if ops2 else "", p["n"])
                if ops2:
                    p["ops2"] = True
                out.write(json.dumps(p) + "\n")
                n += 1
    print(n, "mutants planned")


def suite(repo):
    rc, out = sh("go test -vet=off -count=1 -timeout 180s -json ./... 2>&1", repo, timeout=400)
    failed = set()
    for line in out.splitlines():
        try:
            e = json.loads(line)
        except Exception:
            continue
        if e.get("Action") == "fail" and e.get("Test"):
            failed.add(e["Test"].split("/")[0])
    bad = sorted(failed - KNOWN_FAIL)
    if not bad and (rc == 124 or "panic: test timed out" in out):
        bad = ["<timeout>"]
    if not bad and "[build failed]" in out:
        bad = ["<test build failed>"]
    return bad


def run(worker, of, limit, survivors_of=None, res_name="results.jsonl", plan_name="plan.jsonl"):
    plan_ = [json.loads(l) for l in open(V + "/out/mutants/" + plan_name)]
    if survivors_of:
        # second pass: only the mutants that survived an earlier pass, against the current checks
        keep = {json.loads(l)["id"] for l in open(V + "/out/mutants/" + survivors_of) if json.loads(l)["status"] == "survived"}
        plan_ = [p for p in plan_ if p["id"] in keep]
    done = set()
    res_path = V + "/out/mutants/" + res_name
    if os.path.exists(res_path):
        done = {json.loads(l)["id"] for l in open(res_path)}
    mine = [p for i, p in enumerate(plan_) if i % of == worker and p["id"] not in done]
    if limit:
        mine = mine[:limit]
    repo, vw = "/tmp/mr%d" % worker, "/tmp/vw%d" % worker
    sh("git -C /repo worktree remove --force %s; rm -rf %s %s" % (repo, repo, vw), "/")
    rc, out = sh("git -C /repo worktree add --detach %s HEAD" % repo, "/")
    assert rc == 0, out
    sh("mkdir -p %s && rsync -a --exclude out --exclude .git --exclude evidence /verif/ %s/ && mkdir -p %s/out %s/evidence" % (vw, vw, vw, vw), "/")
    env = dict(ENV, VERIF_REPO=repo)
    try:
        for p in mine:
            t0 = time.time()
            r = dict(p, status="?", wall_s=0)
            path = os.path.join(repo, p["file"])
            sh("git checkout -- .", repo)
            # the original comes from the worker's own clean tree: /repo may carry a seeded patch meanwhile
            rc, out = sh("/verif/out/mutgen %s -file %s -apply %d -out %s.mut && mv %s.mut %s" % ("-ops2" if p.get("ops2") else "", path, p["n"], path, path, path), "/")
            if rc != 0:
                r["status"] = "mutgen-error"
            else:
                rc, out = sh("go build ./...", repo, timeout=300)
                if rc != 0:
                    r["status"] = "uncompilable"
                else:
                    bad = suite(repo)
                    if bad:
                        r["status"], r["by"] = "killed-by-existing-tests", bad[:4]
                    else:
                        r["status"] = "survived"
                        r["checks"] = {}
                        for pid in FILES[p["file"]]:
                            rc, out = sh("./check %s --tier quick" % pid, vw, timeout=1500, env=env)
                            r["checks"][pid] = rc
                            if rc == 1:
                                r["status"], r["by"] = "killed", pid
                                r["first"] = [l.strip()[:300] for l in out.splitlines() if l.startswith("  ")][:1]
                                break
                            if rc != 0:
                                r["infra"] = out[-400:]
            sh("git checkout -- .", repo)
            r["wall_s"] = round(time.time() - t0, 1)
            with open(res_path, "a") as f:
                fcntl.flock(f, fcntl.LOCK_EX)
                f.write(json.dumps(r) + "\n")
            print(worker, r["id"], r["op"], r["status"], r.get("by", ""), r["wall_s"], flush=True)
    finally:
        sh("git -C /repo worktree remove --force %s; rm -rf %s %s; git -C /repo worktree prune" % (repo, repo, vw), "/")


def one(mid, props):
    """Applies one planned mutant in a scratch tree and runs the given quick checks against it (from a copy of the
    current /verif working tree, so strengthened checks can be tried before committing)."""
    p = [json.loads(l) for f in ("plan.jsonl", "plan-ops2.jsonl") if os.path.exists(V + "/out/mutants/" + f) for l in open(V + "/out/mutants/" + f) if json.loads(l)["id"] == mid][0]
    repo, vw = "/tmp/mr9", "/tmp/vw9"
    sh("git -C /repo worktree remove --force %s; rm -rf %s %s" % (repo, repo, vw), "/")
    rc, out = sh("git -C /repo worktree add --detach %s HEAD" % repo, "/")
    assert rc == 0, out
    sh("mkdir -p %s && rsync -a --exclude out --exclude .git --exclude evidence /verif/ %s/ && mkdir -p %s/out %s/evidence" % (vw, vw, vw, vw), "/")
    try:
        rc, out = sh("/verif/out/mutgen %s -file /repo/%s -apply %d -out %s" % ("-ops2" if p.get("ops2") else "", p["file"], p["n"], os.path.join(repo, p["file"])), "/")
        assert rc == 0, out
        print(sh("git diff", repo)[1][:1500])
        for pid in props:
            rc, out = sh("./check %s --tier quick" % pid, vw, timeout=1500, env=dict(ENV, VERIF_REPO=repo))
            print(pid, "exit", rc, [l.strip()[:300] for l in out.splitlines() if l.startswith("  ")][:1])
    finally:
        sh("git -C /repo worktree remove --force %s; rm -rf %s %s; git -C /repo worktree prune" % (repo, repo, vw), "/")


def report(res_name="results.jsonl"):
    rs = [json.loads(l) for l in open(V + "/out/mutants/" + res_name)]
    from collections import Counter
    c = Counter(r["status"] for r in rs)
    print(dict(c))
    byf = {}
    for r in rs:
        byf.setdefault(r["file"], Counter())[r["status"]] += 1
    for f, cc in sorted(byf.items()):
        print("%-36s %s" % (f, dict(cc)))
    print("\nsurvivors:")
    for r in rs:
        if r["status"] == "survived":
            print("  %s line %d %s [%s] %s" % (r["file"], r["line"], r["func"], r["op"], r["desc"][:100]))


if __name__ == "__main__":
    cmd = sys.argv[1]
    args = sys.argv[2:]
    def opt(name, default=None):
        return args[args.index(name) + 1] if name in args else default
    if cmd == "plan":
        fs = opt("--files")
        plan(fs.split(",") if fs else list(FILES), "--ops2" in args, opt("--plan", "plan.jsonl"))
    elif cmd == "run":
        run(int(opt("--worker", "0")), int(opt("--of", "1")), int(opt("--limit", "0")), opt("--survivors-of"), opt("--results", "results.jsonl"), opt("--plan", "plan.jsonl"))
    elif cmd == "one":
        one(args[0], args[1:])
    elif cmd == "report":
        report(opt("--results", "results.jsonl"))
