module verif/tools/mutgen

go 1.21
