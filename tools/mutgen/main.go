// mutgen lists and applies syntactic mutations of one Go source file (sensitivity analysis of the checks:
// see tools/mutate.py). Operators: negate an if condition, swap a comparison/logical/arithmetic operator,
// delete a call statement / defer / plain assignment, bump an integer literal.
//
//	mutgen -file F -list            prints one JSON object per mutation point
//	mutgen -file F -apply N -out P  writes the file with mutation N applied
package main

import (
	"bytes"
	"encoding/json"
	"flag"
	"fmt"
	"go/ast"
	"go/parser"
	"go/printer"
	"go/token"
	"os"
	"strconv"
)

type point struct {
	N    int    `json:"n"`
	Op   string `json:"op"`
	Line int    `json:"line"`
	Func string `json:"func"`
	Desc string `json:"desc"`
}

var swaps = map[token.Token]token.Token{
	token.LSS: token.LEQ, token.LEQ: token.LSS, token.GTR: token.GEQ, token.GEQ: token.GTR,
	token.EQL: token.NEQ, token.NEQ: token.EQL, token.LAND: token.LOR, token.LOR: token.LAND,
	token.ADD: token.SUB, token.SUB: token.ADD,
}

func src(fset *token.FileSet, n ast.Node) string {
	var b bytes.Buffer
	printer.Fprint(&b, fset, n)
	s := b.String()
	if len(s) > 90 {
		s = s[:90] + "..."
	}
	return s
}

func main() {
	file := flag.String("file", "", "")
	list := flag.Bool("list", false, "")
	apply := flag.Int("apply", -1, "")
	out := flag.String("out", "", "")
	ops2 := flag.Bool("ops2", false, "structural operators instead of the basic ones: undefer, ungo, swap adjacent statements, drop an else branch, drop a return inside an if")
	flag.Parse()
	fset := token.NewFileSet()
	f, err := parser.ParseFile(fset, *file, nil, parser.ParseComments)
	if err != nil {
		fmt.Fprintln(os.Stderr, err)
		os.Exit(2)
	}
	n := 0
	var pts []point
	hit := func(op string, node ast.Node, fn, desc string, do func()) {
		if *apply == n {
			do()
		}
		pts = append(pts, point{N: n, Op: op, Line: fset.Position(node.Pos()).Line, Func: fn, Desc: desc})
		n++
	}
	for _, d := range f.Decls {
		fd, ok := d.(*ast.FuncDecl)
		if !ok || fd.Body == nil {
			continue
		}
		fn := fd.Name.Name
		// statement deletions need the enclosing list
		var walkBlock func(list *[]ast.Stmt)
		walkStmt := func(s ast.Stmt) {}
		_ = walkStmt
		walkBlock = func(list *[]ast.Stmt) {
			for i := range *list {
				s := (*list)[i]
				idx := i
				del := func() { (*list)[idx] = &ast.EmptyStmt{Semicolon: s.Pos(), Implicit: true} }
				if *ops2 {
					switch st := s.(type) {
					case *ast.DeferStmt:
						hit("undefer", s, fn, src(fset, s), func() { (*list)[idx] = &ast.ExprStmt{X: st.Call} })
					case *ast.GoStmt:
						if _, lit := st.Call.Fun.(*ast.FuncLit); !lit {
							hit("ungo", s, fn, src(fset, s), func() { (*list)[idx] = &ast.ExprStmt{X: st.Call} })
						}
					case *ast.IfStmt:
						if st.Else != nil {
							hit("drop-else", s, fn, "if "+src(fset, st.Cond)+" ... else", func() { st.Else = nil })
						}
					}
					if idx+1 < len(*list) {
						_, d1 := s.(*ast.DeclStmt)
						a1, isA1 := s.(*ast.AssignStmt)
						_, r2 := (*list)[idx+1].(*ast.ReturnStmt)
						if !d1 && !(isA1 && a1.Tok == token.DEFINE) && !r2 {
							nxt := (*list)[idx+1]
							if a2, isA2 := nxt.(*ast.AssignStmt); !(isA2 && a2.Tok == token.DEFINE) {
								if _, d2 := nxt.(*ast.DeclStmt); !d2 {
									hit("swap-stmts", s, fn, src(fset, s)+"  <->  "+src(fset, nxt), func() { (*list)[idx], (*list)[idx+1] = nxt, s })
								}
							}
						}
					}
					continue
				}
				switch st := s.(type) {
				case *ast.ExprStmt:
					if call, ok := st.X.(*ast.CallExpr); ok {
						if id, ok := call.Fun.(*ast.Ident); ok && id.Name == "panic" {
							break
						}
						hit("del-call", s, fn, src(fset, s), del)
					}
				case *ast.DeferStmt:
					hit("del-defer", s, fn, src(fset, s), del)
				case *ast.AssignStmt:
					if st.Tok != token.DEFINE {
						hit("del-assign", s, fn, src(fset, s), del)
					}
				case *ast.IncDecStmt:
					hit("del-incdec", s, fn, src(fset, s), del)
				}
			}
		}
		ast.Inspect(fd.Body, func(nd ast.Node) bool {
			switch x := nd.(type) {
			case *ast.BlockStmt:
				walkBlock(&x.List)
			case *ast.CaseClause:
				walkBlock(&x.Body)
			case *ast.CommClause:
				walkBlock(&x.Body)
			case *ast.IfStmt:
				if *ops2 {
					break
				}
				c := x.Cond
				hit("negate-if", x, fn, "if "+src(fset, c), func() {
					x.Cond = &ast.UnaryExpr{Op: token.NOT, X: &ast.ParenExpr{X: c}}
				})
			case *ast.BinaryExpr:
				if to, ok := swaps[x.Op]; ok && !*ops2 {
					// string concatenation: '-' would not compile; the build filter drops it
					hit("swap-"+x.Op.String()+"-to-"+to.String(), x, fn, src(fset, x), func() { x.Op = to })
				}
			case *ast.BasicLit:
				if x.Kind == token.INT && !*ops2 {
					if v, err := strconv.ParseInt(x.Value, 0, 64); err == nil {
						hit("int+1", x, fn, x.Value, func() { x.Value = strconv.FormatInt(v+1, 10) })
					}
				}
			}
			return true
		})
	}
	if *list {
		enc := json.NewEncoder(os.Stdout)
		for _, p := range pts {
			enc.Encode(p)
		}
		return
	}
	if *apply < 0 || *apply >= n {
		fmt.Fprintln(os.Stderr, "no such mutation")
		os.Exit(2)
	}
	var b bytes.Buffer
	if err := (&printer.Config{Mode: printer.UseSpaces | printer.TabIndent, Tabwidth: 8}).Fprint(&b, fset, f); err != nil {
		fmt.Fprintln(os.Stderr, err)
		os.Exit(2)
	}
	if err := os.WriteFile(*out, b.Bytes(), 0o644); err != nil {
		fmt.Fprintln(os.Stderr, err)
		os.Exit(2)
	}
}
