#!/usr/bin/env python3
"""Re-runs the checks against a seeded change already stored under /verif/seeded/<seed-id>/ (after a check
was strengthened). The earlier result moves to meta.json's "history".

  tools/seedrecheck.py <seed-id> "<note: what was strengthened>" <property> [<property> ...]
"""
import json, os, shutil, sys, time
sys.path.insert(0, os.path.dirname(__file__))
from seedcheck import sh


def main():
    sid, note, props = sys.argv[1], sys.argv[2], sys.argv[3:]
    dst = os.path.join("/verif/seeded", sid)
    meta = json.load(open(os.path.join(dst, "meta.json")))
    assert sh("git status --porcelain", "/repo")[1].strip() == "", "/repo not clean"
    rc, out = sh("git apply --whitespace=nowarn %s" % os.path.join(dst, "patch.diff"), "/repo")
    assert rc == 0, out
    bak = "/verif/out/evidence-backup"
    shutil.rmtree(bak, ignore_errors=True)
    shutil.copytree("/verif/evidence", bak)
    checks = {}
    try:
        for p in props:
            t0 = time.time()
            rc, out = sh("./check %s --tier quick" % p, "/verif", timeout=1800)
            viol = [l for l in out.splitlines() if l.startswith("VIOLATION")]
            detail = [l.strip()[:400] for l in out.splitlines() if l.startswith("  ")][:3]
            checks[p] = {"exit": rc, "violations": len(viol), "first": detail, "wall_s": round(time.time() - t0, 1)}
    finally:
        sh("git checkout -- .", "/repo")
        shutil.rmtree("/verif/evidence", ignore_errors=True)
        shutil.copytree(bak, "/verif/evidence")
    if isinstance(meta.get("history"), str):
        meta["history"] = [meta["history"]]
    meta.setdefault("history", []).append({"checks_against_patch": meta.get("checks_against_patch"), "then": note})
    merged = dict(meta.get("checks_against_patch") or {})
    merged.update(checks)
    meta["checks_against_patch"] = merged
    json.dump(meta, open(os.path.join(dst, "meta.json"), "w"), indent=1)
    print(sid, {p: (c["exit"], c["violations"]) for p, c in checks.items()})


if __name__ == "__main__":
    main()
