#!/bin/sh
# Runs the quick tier of every check at several VERIF_SEED values (used through `vp run --with-repo`); prints one line per run.
cd "$(dirname "$0")/.."
mkdir -p out evidence
[ -n "$VP_RUN_REPO" ] && export VERIF_REPO="$VP_RUN_REPO"
for seed in ${SEEDS:-2 3 4 5}; do
  for p in C01 C02 C03 C04 C05 C06 C07 C08 C09 C10 C11 C12 C13 C14 C15 C16 C17 C18 C19 C20; do
    t0=$(date +%s)
    VERIF_SEED=$seed ./check $p --tier quick > out/quick-$p-$seed.log 2>&1
    rc=$?
    echo "seed=$seed $p rc=$rc wall=$(( $(date +%s) - t0 ))s $(grep -A1 VIOLATION out/quick-$p-$seed.log | head -2 | tr '\n' ' ' | cut -c1-300) $(grep INFRA out/quick-$p-$seed.log | head -1 | cut -c1-200)"
  done
done
