#!/bin/sh
# Runs the thorough tier of every check sequentially (used through `vp run --with-repo`), printing wall time and exit code.
cd "$(dirname "$0")/.."
mkdir -p out evidence
[ -n "$VP_RUN_REPO" ] && export VERIF_REPO="$VP_RUN_REPO"
for p in ${*:-C01 C02 C03 C04 C05 C06 C07 C08 C09 C10 C11 C12 C13 C14 C15 C16 C17 C18 C19 C20}; do
  t0=$(date +%s)
  ./check $p --tier thorough > out/thorough-$p.log 2>&1
  rc=$?
  echo "$p rc=$rc wall=$(( $(date +%s) - t0 ))s $(grep -c VIOLATION out/thorough-$p.log) violations; $(tail -1 out/thorough-$p.log | cut -c1-200)"
done
