#!/usr/bin/env python3
"""Confirms a seeded change and runs the checks against it.

  tools/seedcheck.py <seed-id> <agent-worktree> <property> [<property> ...]

1. In the agent's scratch worktree (outside /repo and /verif): apply _seeded/patch.diff, run the existing test
   suite (must pass apart from the 4 ipinfo tests that fail on the unchanged tree), run the demonstration
   (must fail), revert, run the demonstration again (must pass).
2. Copy patch.diff, demo/ and meta.json to /verif/seeded/<seed-id>/.
3. Apply the patch to /repo, run ./check <property> (quick) for each named property, undo the patch.
Writes /verif/seeded/<seed-id>/meta.json (augmented with what was run and what was observed).
"""
import json, os, shutil, subprocess, sys, time

ENV = dict(os.environ, GOFLAGS="-mod=mod", GOPROXY="off", GOSUMDB="off", GOTOOLCHAIN="local")
KNOWN_FAIL = {"TestIPInfoMap", "TestIPInfoMapASNOnly", "TestIPInfoMapCountryOnly", "TestTestDataExists"}


def sh(cmd, cwd, timeout=900):
    p = subprocess.run(cmd, cwd=cwd, env=ENV, shell=True, stdout=subprocess.PIPE, stderr=subprocess.STDOUT, timeout=timeout)
    return p.returncode, p.stdout.decode(errors="replace")


def suite_ok(wt):
    rc, out = sh("go test -vet=off -count=1 -json ./... 2>&1", wt)
    failed = set()
    for line in out.splitlines():
        try:
            e = json.loads(line)
        except Exception:
            continue
        if e.get("Action") == "fail" and e.get("Test"):
            failed.add(e["Test"].split("/")[0])
    bad = failed - KNOWN_FAIL
    build_failed = "[build failed]" in out or "cannot " in out and "FAIL" in out and not failed
    return (not bad and not build_failed), sorted(bad), out[-1500:]


def main():
    sid, wt, props = sys.argv[1], sys.argv[2], sys.argv[3:]
    seed = os.path.join(wt, "_seeded")
    meta = json.load(open(os.path.join(seed, "meta.json")))
    res = {"confirmed": False}
    cached = os.path.join(seed, "confirm.json")  # written by an earlier run with SEEDCHECK_PHASE=confirm (lets confirmations run in parallel)
    sh("git checkout -- . && git clean -fdq -e _seeded", wt)
    rc, out = sh("git apply --whitespace=nowarn _seeded/patch.diff", wt) if not os.path.exists(cached) else (0, "")
    if os.path.exists(cached):
        res = json.load(open(cached))
    elif rc != 0:
        res["error"] = "patch does not apply: " + out[-500:]
    else:
        ok, bad, tail = suite_ok(wt)
        res["existing_tests_pass_with_patch"] = ok
        res["unexpected_failures"] = bad
        # place demo files
        for dst, src in meta.get("demo_files", {}).items():
            os.makedirs(os.path.dirname(os.path.join(wt, dst)), exist_ok=True)
            shutil.copy(os.path.join(seed, "demo", os.path.basename(src)) if not os.path.exists(os.path.join(seed, src)) else os.path.join(seed, src), os.path.join(wt, dst))
        demo_cmd = meta["demo_cmd"].replace("&amp;", "&")
        rc1, out1 = sh(demo_cmd, wt)
        res["demo_fails_with_patch"] = rc1 != 0
        sh("git apply -R --whitespace=nowarn _seeded/patch.diff", wt)
        rc2, out2 = sh(demo_cmd, wt)
        res["demo_passes_without_patch"] = rc2 == 0
        res["demo_output_with_patch"] = out1[-800:]
        for dst in meta.get("demo_files", {}):
            try:
                os.remove(os.path.join(wt, dst))
            except OSError:
                pass
        res["confirmed"] = bool(ok and rc1 != 0 and rc2 == 0)
    sh("git checkout -- . && git clean -fdq -e _seeded", wt)
    if os.environ.get("SEEDCHECK_PHASE") == "confirm":
        json.dump(res, open(cached, "w"), indent=1)
        print(json.dumps({"seed": sid, "confirmed": res["confirmed"], "res": {k: v for k, v in res.items() if k != "demo_output_with_patch"}}))
        return
    dst = os.path.join("/verif/seeded", sid)
    os.makedirs(dst, exist_ok=True)
    shutil.copy(os.path.join(seed, "patch.diff"), os.path.join(dst, "patch.diff"))
    if os.path.isdir(os.path.join(dst, "demo")):
        shutil.rmtree(os.path.join(dst, "demo"))
    shutil.copytree(os.path.join(seed, "demo"), os.path.join(dst, "demo"))
    checks = {}
    if res["confirmed"]:
        assert sh("git status --porcelain", "/repo")[1].strip() == "", "/repo not clean"
        rc, out = sh("git apply --whitespace=nowarn %s" % os.path.join(dst, "patch.diff"), "/repo")
        if rc != 0:
            res["error"] = "patch does not apply to /repo: " + out[-300:]
        else:
            bak = "/verif/out/evidence-backup"
            shutil.rmtree(bak, ignore_errors=True)
            shutil.copytree("/verif/evidence", bak)  # evidence must describe runs on the unchanged tree only
            try:
                for p in props:
                    t0 = time.time()
                    rc, out = sh("./check %s --tier quick" % p, "/verif", timeout=1800)
                    viol = [l for l in out.splitlines() if l.startswith("VIOLATION")]
                    detail = [l.strip() for l in out.splitlines() if l.startswith("  ")][:3]
                    checks[p] = {"exit": rc, "violations": len(viol), "first": detail, "wall_s": round(time.time() - t0, 1)}
            finally:
                sh("git checkout -- .", "/repo")
                shutil.rmtree("/verif/evidence", ignore_errors=True)
                shutil.copytree(bak, "/verif/evidence")
    meta["verification"] = res
    meta["checks_against_patch"] = checks
    meta["what_was_run"] = "tools/seedcheck.py: existing suite with patch, demo with and without patch in a scratch worktree; then ./check <property> --tier quick on /repo with the patch applied, patch undone afterwards"
    json.dump(meta, open(os.path.join(dst, "meta.json"), "w"), indent=1)
    print(json.dumps({"seed": sid, "confirmed": res["confirmed"], "res": {k: v for k, v in res.items() if k != "demo_output_with_patch"}, "checks": checks}, indent=1))


if __name__ == "__main__":
    main()
