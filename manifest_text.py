HOOK_COMMITS = []
ALL = ["C%02d" % i for i in range(1, 21)]
TEXT = {
 "C01": dict(
  technique="stateful property-based testing (rapid) with an independent reference codec as oracle",
  level_text="Generated histories (key lists, cipher mixes, client IPs, valid/truncated/flipped/foreign/random streams, list updates) run against the real CipherList + authenticator + StreamHandler; every decision is compared with a linear reference scan written with an independent AEAD codec. A pass means no counter-example among the generated cases; it is a falsifier, not a proof.",
  level_note="Assumes AEAD forgery resistance; in-memory connections instead of sockets; schedules are not explored here (see C19 for the concurrent variant).",
 ),
 "C02": dict(
  technique="model-based property testing (rapid): generated relay scripts over loopback TCP vs. a two-FIFO-with-EOF reference model",
  level_text="Generated scripts of sends and half-closes in both directions, with generated chunking, segmentation, pacing and address forms, run through the real StreamServe/StreamHandler over loopback TCP; the bytes and EOFs seen by the raw client (decrypted with an independent codec) and by the scripted target are compared with two FIFO byte streams with EOF markers.",
  level_note="Loopback only; scheduler/kernel interleavings are sampled, not enumerated; SDK crypto is trusted only to the extent that an independent codec interoperates with it.",
 ),
}
def _na():
    from checks_table import CHECKS
    return [{"property_id": p, "reason": "check not yet built in this revision (planned in DESIGN.md); not claimed until its check exists"} for p in ALL if p not in CHECKS]
NOT_APPLICABLE = _na()
