HOOK_COMMITS = []
ALL = ["C%02d" % i for i in range(1, 21)]
TEXT = {
 "C01": dict(
  technique="stateful property-based testing (rapid) with an independent reference codec as oracle",
  level_text="Generated histories (key lists, cipher mixes, client IPs, valid/truncated/flipped/foreign/random streams, list updates) run against the real CipherList + authenticator + StreamHandler; every decision is compared with a linear reference scan written with an independent AEAD codec. A pass means no counter-example among the generated cases; it is a falsifier, not a proof.",
  level_note="Assumes AEAD forgery resistance; in-memory connections instead of sockets; schedules are not explored here (see C19 for the concurrent variant).",
 ),
 "C02": dict(
  technique="model-based property testing (rapid): generated relay scripts over loopback TCP vs. a two-FIFO-with-EOF reference model",
  level_text="Generated scripts of sends and half-closes in both directions, with generated chunking, segmentation, pacing and address forms, run through the real StreamServe/StreamHandler over loopback TCP; the bytes and EOFs seen by the raw client (decrypted with an independent codec) and by the scripted target are compared with two FIFO byte streams with EOF markers. A second engine runs the real StreamHandler between in-memory conns under a synctest fake clock, with generated pauses of up to hours between sends and half-closes, against the same two-FIFO model. A third dimension uses in-memory conns on both sides that hand their bytes over in generated read sizes and with the last bytes together with io.EOF.",
  level_note="Loopback only; scheduler/kernel interleavings are sampled, not enumerated; SDK crypto is trusted only to the extent that an independent codec interoperates with it.",
 ),
 "C03": dict(
  technique="model-based property testing (rapid): generated datagram histories vs. an association-table model, independent packet codec as decryption reference",
  level_text="Generated datagram histories (valid, wrong-key, truncated, flipped, random, bad-address) from several client sockets through the real PacketHandler on real UDP sockets to IPv4/IPv6 targets; each forwarded payload, each reply header/salt/payload and each non-forwarding is checked against a model association table whose decryption decisions come from an independent codec. Must-not-forward is decided by observation up to a fence datagram.",
  level_note="Loopback only; a forbidden datagram is only reported when observed; AEAD strength assumed.",
 ),
 "C04": dict(
  technique="model-based property testing (rapid) of the NAT table over real UDP sockets, incl. generated expiries",
  level_text="Many-client histories (shared IPs, shared keys, several targets, unsolicited senders, expiries with short NAT timeouts): the source address seen by targets must be stable per client and never shared between live associations, and every datagram sent to a client's outbound address must reach that client and no other.",
  level_note="Liveness of an association is read from the removal report (an observation); operations are kept 0.6 x timeout away from the expiry instant, a raced case is counted inconclusive.",
 ),
 "C16": dict(
  technique="property-based testing (rapid): recorded metrics call log vs. sizes observed on the client and target sockets",
  level_text="The same generated UDP histories; after shutdown the UDPMetrics/UDPConnMetrics call log is compared per association with what the sockets saw: one add (with the authenticating id), exactly one remove and nothing after it, every datagram on the association once with wire size, forwarded payload size and status, every reply once with payload and wire size; the real Prometheus collector sits behind the recorder and its exported UDP families must add up to the same calls.",
  level_note="Sizes are those measured by the harness sockets; statuses are compared for OK / ERR_CIPHER / ERR_READ_ADDRESS outcomes the generator produces.",
 ),
 "C05": dict(
  technique="property-based testing (rapid) against an independent IANA prefix-table oracle, exhaustive IPv4 enumeration in the thorough tier, and generated end-to-end destinations with local sinks and a fake DNS",
  level_text="RequirePublicIP is compared with an independent classification for structured and random addresses (all 2^32 IPv4 addresses in the thorough tier); end to end, generated destination spellings (literals, mapped, empty/IP-literal domains, hostnames with mixed answers) go through the default TCP dialer and the default UDP validator while sinks listen on every local forbidden address class; for UDP the forbidden datagram is placed at a generated position of a live association.",
  level_note="Only observed traffic at a sink is a violation; RFC1918/CGNAT/multicast have no local sink and are judged by status; IPv6 is sampled, not enumerated.",
 ),
 "C06": dict(
  technique="property-based testing (rapid) under a fake clock (testing/synctest) with exact deadline equality, plus generated concurrent probe batches over real sockets",
  level_text="Generated probes (random, truncated, bit-flipped, foreign-key, replayed, reflected, invalid-after-authentication) and client behaviours (hold, FIN at t, trickle) run against the real handler with the production 59 s timeout in fake time: zero bytes written, every byte consumed, return at exactly start+59 s or exactly at the client's FIN, drained-not-closed after authentication; real loopback sockets add close kind (FIN not RST), a sound lower bound on the close time and post-dial corruption.",
  level_note="Authentication decisions come from an independent codec; fake-time engine uses Go 1.26 timer semantics; real-time upper bounds are generous and must reproduce.",
 ),
 "C07": dict(
  technique="stateful model-based property testing (rapid) of the replay cache incl. concurrent bursts, and of two handlers sharing it",
  level_text="Generated add/resize/burst histories against the real ReplayCache with a sliding-window model (capacity in force per check), boundary capacities and distances; concurrent copies of one handshake must have exactly one winner; two real StreamHandlers sharing the cache must refuse a re-presented handshake on either with ERR_REPLAY_CLIENT, no dial, no bytes and a probe report.",
  level_note="Collisions of the 32-bit checksum are not modelled but neutralised by re-randomising salts; schedules of bursts are those the scheduler produces.",
 ),
 "C08": dict(
  technique="property-based testing (rapid): pairwise-distinct salts and behavioural reflection of recorded server output",
  level_text="Generated runs of relayed connections under all ciphers; every server salt is compared with all earlier ones, and recorded server streams are reflected back (verbatim, truncated, extended) with the replay cache on and off: for salts of at least 20 bytes the reflection must be refused as ERR_REPLAY_SERVER and handled like a probe. A volume test asks the salt generators of generated keys for millions of salts and checks that every one is recognised (value-dependent defects of probability around 10^-6 per salt).",
  level_note="Freshness is checked within a run (hundreds of salts, and 3000-9000 successive connections of one process in the LongRun test), not statistically; AEAD/HMAC strength assumed.",
 ),
 "C20": dict(
  technique="property-based testing (rapid): class oracle for location labels, and leak + metamorphic checks on the real collector's exposition",
  level_text="Generated addresses and database behaviours against the location helpers with an independent class oracle (incl. zero database calls for non-global addresses); generated traffic histories against the real Prometheus collector checking that no series carries the client IP/port in any textual form, that one client has one location label, that the exposition is invariant under replacing the client by another address of the same class, and that no series carries the empty location under concurrent scrapes while lookup is enabled. Histories also use numeric key ids, overlapping tunnels and pairs of clients whose address and key id concatenate to the same text.",
  level_note="Leak detection is textual over names and label values; values are covered by the metamorphic relation.",
 ),
 "C17": dict(
  technique="model-based property testing (rapid) against an interval ledger under a fake clock, plus generated concurrent workloads under the real clock with interval-arithmetic bounds",
  level_text="Generated open/auth/close/add/remove/advance/scrape histories drive the real Prometheus collector under a synctest fake clock and every scrape is compared with a ledger of per-(IP,key) open intervals; because a fake clock cannot move between two statements, generated concurrent workloads (workers x scrapers x client pools x database latency) additionally run under the real clock, where the process must survive, counters must be monotone and the final totals must lie inside bounds derived from the workers' own timestamps. A third engine puts the real StreamHandler (with replay history) in front of the real collector under the fake clock: generated successive valid, random, replayed and reflected connections held open for generated times.",
  level_note="Concurrent schedules are sampled; the fake-time engine uses Go 1.26 timer semantics.",
 ),
 "C12": dict(
  technique="stateful property-based testing (rapid) with history invariants over real sockets, each case repeated to sample schedules",
  level_text="Generated acquire/close/pending-call/send/settle sequences on one shared address through the real ListenerManager (TCP and UDP sockets); invariants over the recorded history decide exactly-once delivery, nothing delivered to a handle closed before the call started, ErrClosed for pending and later calls, socket release, absence of leftover goroutines and closing of orphaned connections. A fault-injection unit makes the shared accept fail for real (EMFILE, by lowering RLIMIT_NOFILE in a process of its own) while generated numbers of connections wait in the backlog, and checks delivery after the fault and that no handle was closed by it.",
  level_note="The Go scheduler is not controlled: racing deliveries are sampled by running every case four times; absence of other interleavings is not established.",
 ),
 "C13": dict(
  technique="property-based schedule exploration (rapid): generated concurrent listen/close plans, repeated, with a watchdog and a usability post-condition",
  level_text="Generated per-goroutine plans of ListenStream/ListenPacket/Close calls on shared addresses are run concurrently 50 times each against the real ListenerManager; every call must return (5 s watchdog) and succeed, and the manager must accept a sequential listen+close on every address afterwards. A hit is classified by the blocked mutex sites.",
  level_note="The harness does not own the Go scheduler; interleavings are sampled by repetition. Not a model-checking result.",
 ),
 "C09": dict(
  technique="property-based testing (rapid) of generated configurations against the real main package in a child process, with an exhaustive (listener x key) probe matrix per configuration",
  level_text="Generated YAML configurations (both formats, shared and duplicated key material, IPv4/IPv6, TCP/UDP) are loaded by the real RunOutlineServer in an executor process; for every configuration the complete matrix of listeners x key materials is probed with an independent client codec and compared with the ownership model derived from the configuration.",
  level_note="The executor is injected with go test -overlay and only calls RunOutlineServer/loadConfig/Stop; authentication is observed through a recording ServiceMetrics wrapper.",
 ),
 "C10": dict(
  technique="model-based property testing (rapid) with generated fault injection at every load stage; model = last successfully loaded configuration",
  level_text="Generated sequences of reload attempts, each a generated configuration plus a generated fault (file, YAML, validation, bad cipher in service i / legacy key j, unbindable listener j of service i), run against the real main package; after every attempt the full endpoint x key matrix over everything ever mentioned is compared with the last configuration that loaded, and after Stop the process must be back to its baseline of goroutines and sockets.",
  level_note="Faults are enumerated by generation over (stage, i, j), not by instrumenting the loader; one process per case; every fifth case triggers its reloads by SIGHUP on the rewritten start file.",
 ),
 "C11": dict(
  technique="property-based testing (rapid) of generated reload sequences under continuous generated client load, judged from the server's own per-connection reports",
  level_text="Generated sequences of configurations that all retain one address and key are hot-reloaded in the real main package (executor process) while hammering clients connect and send datagrams with the retained key and pre-existing relays in generated states wait; the oracle is over the whole history: no refusal or reset, exactly one generation handles each connection/datagram, the retained key authenticates throughout, relays finish byte-for-byte. A third of the cases carry a further service whose key reuses the retained key's id with another secret.",
  level_note="Timing of connections relative to reloads is sampled by hammering; the evidence counts how many connections overlapped a reload.",
 ),
 "C14": dict(
  technique="property-based testing (rapid): deadline-algebra histories on the NAT entry with a recording fake socket (in-package executor), and generated concurrent client scripts in real time on real sockets",
  level_text="Generated write/reply/pause histories check every deadline the NAT entry sets against t0+timeout (17 s for DNS), monotonicity and the single permitted fast close; generated batches of concurrent clients with DNS and non-DNS scripts check, on real sockets, liveness before the promised instant (sound lower bounds), removal exactly once, release of the outbound port, fast close, the 17 s promise under a short configured timeout and reclamation at shutdown.",
  level_note="The in-package executor uses only identifiers the repository's own udp_test.go uses; real-time checks use generous upper bounds; 'eventually reclaimed' means within 2-3 s.",
 ),
 "C15": dict(
  technique="property-based testing (rapid): generated concurrent connection outcomes; recorded metric call sequences and the real collector vs. byte counts measured on the sockets",
  level_text="Generated mixes of connection outcomes (completed relays, probes, replays, reflected salts, bad addresses, connect failures, resets on either side, corrupt chunks) run concurrently through the real TCP service; for each connection the recorded TCPConnMetrics call sequence and the four byte counters are compared with what the raw client and target sockets measured, and the real Prometheus collector's counters with the call log. A further generated dimension drives the real StreamHandler on an in-memory client conn with generated read sizes and with the last bytes delivered together with io.EOF.",
  level_note="Authentication expectations come from the scenario construction with an independent codec; reset outcomes admit a set of statuses.",
 ),
 "C18": dict(
  technique="grammar-based property testing (rapid) of hostile TCP/UDP inputs with journalled cases, liveness canaries and resource accounting; native fuzzing of the two decoders in the thorough tier",
  level_text="Generated hostile inputs (malformed SOCKS headers inside authenticated plaintext, hostile chunk framing, raw bytes, replies of every size from every local source class, generated termination orders and listener shutdowns) are driven through the real TCP and UDP services; the process must survive (cases are journalled first), no panic may be recovered, well-formed traffic must still be served, serving must stop only after all handlers returned, and goroutines and sockets must return to the baseline.",
  level_note="Only local destinations are generated; 'gone' means within 4 s with the garbage collector switched off during a case (no rescue by finalizers); coverage-guided fuzzing runs only in the thorough tier.",
 ),
 "C19": dict(
  technique="property-based generation of concurrent workloads executed under the Go race detector, each with a sequential-consistency oracle",
  level_text="Generated concurrent workloads for every shared component (key list, replay history, association table, shared listeners, collectors, the TCP service end to end) run in a -race build; any race report is a violation whose signature is the pair of racing sites, and each workload also checks a result that must equal some sequential order (always-present key never fails, exactly one winner per duplicated handshake, exactly-once delivery, nothing lost). For the replay history, generated bursts of concurrent adds at every fill level of small and large histories are followed by a check derived from all sequential orders: the most recent earlier handshakes must still be refused.",
  level_note="Dynamic race detection: only interleavings that occur are seen. The thorough tier runs hundreds to thousands of workloads.",
 ),
}
def _na():
    from checks_table import CHECKS
    return [{"property_id": p, "reason": "check not yet built in this revision (planned in DESIGN.md); not claimed until its check exists"} for p in ALL if p not in CHECKS]
NOT_APPLICABLE = _na()
