module verif/harness26

go 1.26

require (
	github.com/Jigsaw-Code/outline-sdk v0.0.14
	github.com/Jigsaw-Code/outline-ss-server v0.0.0
	github.com/prometheus/client_golang v1.15.0
	pgregory.net/rapid v1.3.0
	verif/harness v0.0.0
)

require (
	github.com/beorn7/perks v1.0.1 // indirect
	github.com/cespare/xxhash/v2 v2.2.0 // indirect
	github.com/golang/protobuf v1.5.3 // indirect
	github.com/matttproud/golang_protobuf_extensions v1.0.4 // indirect
	github.com/oschwald/geoip2-golang v1.8.0 // indirect
	github.com/oschwald/maxminddb-golang v1.10.0 // indirect
	github.com/prometheus/client_model v0.3.0 // indirect
	github.com/prometheus/common v0.42.0 // indirect
	github.com/prometheus/procfs v0.9.0 // indirect
	github.com/shadowsocks/go-shadowsocks2 v0.1.5 // indirect
	golang.org/x/crypto v0.17.0 // indirect
	golang.org/x/sys v0.16.0 // indirect
	google.golang.org/protobuf v1.30.0 // indirect
)

replace github.com/Jigsaw-Code/outline-ss-server => /repo

replace verif/harness => ../harness
