module verif/harness26

go 1.26

require (
	github.com/Jigsaw-Code/outline-ss-server v0.0.0
	pgregory.net/rapid v1.3.0
	verif/harness v0.0.0
)

require (
	github.com/Jigsaw-Code/outline-sdk v0.0.14 // indirect
	github.com/shadowsocks/go-shadowsocks2 v0.1.5 // indirect
	golang.org/x/crypto v0.17.0 // indirect
	golang.org/x/sys v0.16.0 // indirect
)

replace github.com/Jigsaw-Code/outline-ss-server => /repo

replace verif/harness => ../harness
