package props

// C06 (fake-time engine) — unauthenticated TCP input is absorbed silently until the timeout.
//
// Each generated case runs the real StreamHandler with the production 59 s
// timeout inside its own testing/synctest bubble, on an in-memory duplex conn
// whose deadlines follow the fake clock: deadlines are compared with ==.

import (
	"context"
	"fmt"
	"io"
	"net"
	"sync"
	"testing"
	"testing/synctest"
	"time"

	"github.com/Jigsaw-Code/outline-ss-server/service"
	"pgregory.net/rapid"
	"verif/harness/kit"
)

const prodTimeout = 59 * time.Second

type C06Case struct {
	Keys       []kit.KeySpec `json:"keys"`
	CacheN     int           `json:"cache_n"`
	Kind       string        `json:"kind"` // random | trunc | flip | wrongkey | replay | reflect | badatyp | corruptaddr | shortheader
	KeyIdx     int           `json:"key_idx"`
	Arg        int           `json:"arg"`
	Seed       int64         `json:"seed"`
	PayloadLen int           `json:"payload_len"`
	Client     string        `json:"client"` // hold | fin | trickle
	FinAfterMs int           `json:"fin_after_ms"`
	TrickleMs  int           `json:"trickle_ms"`
	TrickleN   int           `json:"trickle_n"`
	Seg        []int         `json:"seg"`
	GapMs      int           `json:"gap_ms"`
	// >0: the serving context is cancelled at this (fake) time, as when the listener the connection came in on is
	// closed by a reload; the connection is still owed the full silence
	CancelAtMs int `json:"cancel_at_ms,omitempty"`
}

func genC06(maxKeys int) func(t *rapid.T) C06Case {
	return func(t *rapid.T) C06Case {
		c := C06Case{Keys: kit.GenKeyUniverse(t, 1, maxKeys)}
		c.CacheN = rapid.SampledFrom([]int{0, 0, 1, 5, 100}).Draw(t, "cache")
		c.Kind = rapid.SampledFrom([]string{"random", "random", "trunc", "trunc", "flip", "flip", "wrongkey", "replay", "reflect", "badatyp", "corruptaddr", "shortheader"}).Draw(t, "kind")
		c.KeyIdx = rapid.IntRange(0, len(c.Keys)-1).Draw(t, "key")
		c.Seed = rapid.Int64Range(1, 1<<40).Draw(t, "seed")
		c.PayloadLen = rapid.SampledFrom([]int{0, 1, 30, 1000, 20000}).Draw(t, "plen")
		switch c.Kind {
		case "random":
			c.Arg = rapid.OneOf(rapid.SampledFrom([]int{0, 1, 10, 33, 34, 41, 42, 49, 50, 51, 52, 66, 67, 500, 70000}), rapid.IntRange(0, 200)).Draw(t, "len")
		case "trunc":
			c.Arg = rapid.OneOf(rapid.IntRange(0, 120), rapid.IntRange(0, 1200)).Draw(t, "at")
		case "flip":
			// single bit anywhere in the first 130 bytes: salt, length, length tag, address chunk, tags, payload
			c.Arg = rapid.IntRange(0, 130*8-1).Draw(t, "bit")
		case "badatyp":
			c.Arg = rapid.SampledFrom([]int{0, 2, 5, 6, 128, 255}).Draw(t, "atyp")
		case "shortheader":
			c.Arg = rapid.IntRange(1, 6).Draw(t, "hdrlen")
		}
		c.Client = rapid.SampledFrom([]string{"hold", "hold", "fin", "fin", "trickle"}).Draw(t, "client")
		c.FinAfterMs = rapid.SampledFrom([]int{0, 1, 500, 20000, 58999, 59000, 59001, 120000}).Draw(t, "finAfter")
		c.TrickleMs = rapid.SampledFrom([]int{100, 1000, 7000, 30000}).Draw(t, "trickleMs")
		c.TrickleN = rapid.IntRange(1, 40).Draw(t, "trickleN")
		c.Seg = rapid.SliceOfN(rapid.SampledFrom([]int{1, 2, 16, 31, 32, 33, 49, 50, 51, 100}), 0, 4).Draw(t, "seg")
		c.GapMs = rapid.SampledFrom([]int{0, 0, 1, 3000, 9000}).Draw(t, "gap")
		if rapid.IntRange(0, 3).Draw(t, "cancel") == 0 {
			c.CancelAtMs = rapid.SampledFrom([]int{1, 500, 20000, 58999}).Draw(t, "cancelAt")
		}
		return c
	}
}

const c06Target = "192.0.2.99:80"

func validStream(k *kit.Key, seed int64, payloadLen int, addr []byte) []byte {
	plain := append(append([]byte(nil), addr...), kit.DetBytes(seed+1, payloadLen)...)
	return kit.EncodeStream(k, kit.DetBytes(seed, k.SaltSize()), plain, []int{len(addr)})
}

type c06Outcome struct {
	returned   bool
	returnedAt time.Duration // since start
	finAt      time.Duration
	srvWrote   int64
	clientSent int64
}

// presentInBubble runs one connection carrying `wire` and reports what happened. Must be called inside a bubble.
func presentInBubble(h service.StreamHandler, rec *kit.RecTCPConn, c C06Case, wire []byte, clientIP string, checkAt10min func(returned bool)) c06Outcome {
	cl, srv := kit.NewDuplexPair(&net.TCPAddr{IP: net.ParseIP(clientIP), Port: 5555})
	var out c06Outcome
	var mu sync.Mutex
	start := time.Now()
	done := make(chan struct{})
	ctx := context.Background()
	if c.CancelAtMs > 0 {
		var cancel context.CancelFunc
		ctx, cancel = context.WithCancel(ctx)
		stopCancel := make(chan struct{})
		cancelled := make(chan struct{})
		go func() { // ends with the presentation (no goroutine may outlive the bubble's main goroutine)
			defer close(cancelled)
			tm := time.NewTimer(time.Duration(c.CancelAtMs) * time.Millisecond)
			defer tm.Stop()
			select {
			case <-tm.C:
			case <-stopCancel:
			}
			cancel()
		}()
		defer func() { close(stopCancel); <-cancelled }()
	}
	go func() {
		h.Handle(ctx, srv, rec)
		mu.Lock()
		out.returned, out.returnedAt = true, time.Since(start)
		mu.Unlock()
		close(done)
	}()
	var wg sync.WaitGroup
	wg.Add(2)
	go func() { // everything the server writes back
		defer wg.Done()
		io.Copy(io.Discard, cl)
	}()
	finAt := time.Duration(-1)
	go func() { // the client
		defer wg.Done()
		rest := wire
		for _, n := range c.Seg {
			if len(rest) == 0 {
				break
			}
			n = min(n, len(rest))
			if _, err := cl.Write(rest[:n]); err != nil {
				return
			}
			rest = rest[n:]
			time.Sleep(time.Duration(c.GapMs) * time.Millisecond)
		}
		if len(rest) > 0 {
			if _, err := cl.Write(rest); err != nil {
				return
			}
		}
		switch c.Client {
		case "fin":
			time.Sleep(time.Duration(c.FinAfterMs) * time.Millisecond)
			mu.Lock()
			finAt = time.Since(start)
			mu.Unlock()
			cl.CloseWrite()
		case "trickle":
			for i := 0; i < c.TrickleN; i++ {
				time.Sleep(time.Duration(c.TrickleMs) * time.Millisecond)
				if _, err := cl.Write([]byte{byte(i)}); err != nil {
					return
				}
			}
		}
	}()
	if checkAt10min != nil {
		time.Sleep(10 * time.Minute)
		mu.Lock()
		r := out.returned
		mu.Unlock()
		checkAt10min(r)
		// now the client gives up
		mu.Lock()
		if finAt < 0 {
			finAt = time.Since(start)
		}
		mu.Unlock()
		cl.CloseWrite()
	}
	select {
	case <-done:
	case <-time.After(30 * time.Minute):
	}
	mu.Lock()
	out.srvWrote = srv.WBytes.Load()
	out.clientSent = cl.WBytes.Load()
	_ = finAt
	mu.Unlock()
	cl.Close()
	srv.Close()
	wg.Wait()
	out.finAt = finAt
	return out
}

func runC06(t0 *testing.T) func(c C06Case, info *kit.Info) *kit.Finding {
	return func(c C06Case, info *kit.Info) *kit.Finding {
		var f *kit.Finding
		synctest.Test(t0, func(t *testing.T) { f = c06InBubble(c, info) })
		return f
	}
}

func c06InBubble(c C06Case, info *kit.Info) *kit.Finding {
	cl := kit.NewCipherList(c.Keys)
	var cache *service.ReplayCache
	if c.CacheN > 0 {
		rc := service.NewReplayCache(c.CacheN)
		cache = &rc
	}
	dialer := &kit.RecDialer{}
	h := service.NewStreamHandler(service.NewShadowsocksStreamAuthenticator(cl, cache, nil, nil), prodTimeout)
	h.SetTargetDialer(dialer)
	ks := c.Keys[c.KeyIdx]
	key := ks.Key()
	goodAddr := kit.SocksAddrFor(c06Target, false)

	var wire []byte
	wantStatus := "ERR_CIPHER"
	switch c.Kind {
	case "random":
		wire = kit.DetBytes(c.Seed, c.Arg)
	case "trunc":
		wire = validStream(key, c.Seed, c.PayloadLen, goodAddr)
		wire = wire[:min(c.Arg, len(wire))]
	case "flip":
		wire = validStream(key, c.Seed, c.PayloadLen, goodAddr)
		if c.Arg/8 < len(wire) {
			wire[c.Arg/8] ^= 1 << (c.Arg % 8)
		}
	case "wrongkey":
		other := kit.NewKey(ks.Cipher, ks.Secret+"-not-configured")
		wire = validStream(other, c.Seed, c.PayloadLen, goodAddr)
	case "replay":
		wire = validStream(key, c.Seed, c.PayloadLen, goodAddr)
		if c.CacheN > 0 {
			// the original presentation is served normally
			orig := C06Case{Client: "fin"}
			rec := kit.NewRecTCPConn()
			o := presentInBubble(h, rec, orig, wire, "203.0.113.9", nil)
			if st, _ := rec.Closed(); !o.returned || st.Status != "OK" {
				return kit.Violation("probe:original-not-served", "first presentation of a valid handshake: returned=%v status=%q", o.returned, st.Status)
			}
			wantStatus = "ERR_REPLAY_CLIENT"
		}
	case "reflect":
		// a client stream whose salt is server-issued for this key (built with the public generator)
		salt := make([]byte, key.SaltSize())
		service.NewServerSaltGenerator(ks.Secret).GetSalt(salt)
		plain := append(append([]byte(nil), goodAddr...), kit.DetBytes(c.Seed+1, c.PayloadLen)...)
		wire = kit.EncodeStream(key, salt, plain, nil)
		if key.SaltSize() >= 20 {
			wantStatus = "ERR_REPLAY_SERVER"
		}
	case "badatyp":
		addr := append([]byte{byte(c.Arg)}, goodAddr[1:]...)
		wire = validStream(key, c.Seed, c.PayloadLen, addr)
	case "corruptaddr":
		wire = validStream(key, c.Seed, c.PayloadLen, goodAddr)
		// flip a bit inside the address chunk's ciphertext (first chunk = the address alone)
		off := key.SaltSize() + 18 + int(c.Seed%23)
		wire[off] ^= 0x10
	case "shortheader":
		// a valid first chunk that carries only a prefix of the address, then nothing more
		plain := goodAddr[:min(c.Arg, len(goodAddr)-1)]
		wire = kit.EncodeStream(key, kit.DetBytes(c.Seed, key.SaltSize()), plain, nil)
	}

	// Reference decision (independent codec): does the stream authenticate, and if so does it carry a complete valid address?
	// The stream the server sees before its deadline = the probe plus the bytes trickled in before 59 s (fake time is exact).
	seen, ambiguous := c06SeenBeforeDeadline(c, wire)
	if ambiguous {
		info.Class("byte-exactly-at-deadline(not judged)")
		return nil
	}
	var matched *kit.Key
	if len(seen) >= 50 {
		for _, k := range c.Keys {
			if kk := k.Key(); kk.OpensHeader(seen[:50]) {
				matched = kk
				break
			}
		}
	}
	auth := matched != nil && wantStatus == "ERR_CIPHER"
	if matched == nil {
		wantStatus = "ERR_CIPHER"
	}
	relays := false
	if auth {
		dec := kit.NewStreamDecoder(matched)
		dec.Feed(seen)
		if _, _, _, err := kit.ParseSocksAddr(dec.Plain); err == nil {
			relays = true
		}
	}
	info.Class("kind:"+c.Kind, "client:"+c.Client, fmt.Sprintf("auth:%v", auth), fmt.Sprintf("ctx-cancelled-meanwhile:%v", c.CancelAtMs > 0))
	if relays {
		// a complete valid request: not a probe; outside this property
		info.Class("relays(not judged)")
		return nil
	}
	info.NonTrivial = c.Kind != "random" || c.Arg >= 48 && c.Arg <= 52 || c.Arg >= 67
	rec := kit.NewRecTCPConn()

	if auth {
		// Authenticated, then invalid/incomplete before the target is known: drained while the client stays open.
		info.Class("post-auth-invalid")
		cc := c
		if cc.Client == "fin" && cc.FinAfterMs < 600000 {
			// the client FINs on its own before the 10-minute probe point
			o := presentInBubble(h, rec, cc, wire, "203.0.113.10", nil)
			if f := c06Common(o, rec, dialer, cc, "ERR_READ_ADDRESS", false); f != nil {
				return f
			}
			if !o.returned {
				return kit.Violation("drain:never-returned", "authenticated-then-invalid stream (%s): handler did not return after the client's FIN", c.Kind)
			}
			if o.returnedAt < o.finAt {
				return kit.Violation("drain:closed-before-client", "authenticated-then-invalid stream (%s): handler returned at %v, before the client's FIN at %v", c.Kind, o.returnedAt, o.finAt)
			}
			return nil
		}
		var at10 bool
		o := presentInBubble(h, rec, cc, wire, "203.0.113.10", func(returned bool) { at10 = returned })
		if at10 {
			return kit.Violation("drain:closed-while-client-open", "authenticated-then-invalid stream (%s, client %s): handler returned at %v although the client kept the connection open", c.Kind, c.Client, o.returnedAt)
		}
		if f := c06Common(o, rec, dialer, cc, "ERR_READ_ADDRESS", false); f != nil {
			return f
		}
		if !o.returned || o.returnedAt != o.finAt {
			return kit.Violation("drain:not-prompt-after-fin", "authenticated-then-invalid stream (%s): client FIN at %v, handler returned=%v at %v", c.Kind, o.finAt, o.returned, o.returnedAt)
		}
		return nil
	}

	// Not authenticated: absorbed silently until the client closes or exactly 59 s.
	o := presentInBubble(h, rec, c, wire, "203.0.113.11", nil)
	if f := c06Common(o, rec, dialer, c, wantStatus, true); f != nil {
		return f
	}
	if !o.returned {
		return kit.Violation("probe:never-closed", "unauthenticated connection (%s) still open 30 min later", c.Kind)
	}
	want := prodTimeout
	if c.Client == "fin" && o.finAt >= 0 && o.finAt < prodTimeout {
		want = o.finAt
	}
	if o.returnedAt != want {
		return kit.Violation("probe:deadline", "unauthenticated connection (%s, %d bytes, client %s fin@%v) closed at %v, want exactly %v", c.Kind, len(wire), c.Client, o.finAt, o.returnedAt, want)
	}
	return nil
}

func c06Common(o c06Outcome, rec *kit.RecTCPConn, dialer *kit.RecDialer, c C06Case, wantStatus string, probe bool) *kit.Finding {
	if o.srvWrote != 0 {
		return kit.Violation("probe:wrote-back", "server wrote %d bytes to a connection that did not authenticate / turned invalid (%s)", o.srvWrote, c.Kind)
	}
	if n := dialer.NumDials(); n > 0 && c.Kind != "replay" || n > 1 {
		return kit.Violation("probe:dialled", "%d target dial(s) for kind %s", n, c.Kind)
	}
	if !o.returned {
		return nil
	}
	cl, ok := rec.Closed()
	if !ok || cl.Status != wantStatus {
		return kit.Violation("probe:status", "kind %s: closed status %q (reported=%v), want %s", c.Kind, cl.Status, ok, wantStatus)
	}
	var pr *kit.TCPEvent
	for _, e := range rec.Events() {
		if e.Kind == "probe" {
			e := e
			pr = &e
		}
	}
	if probe {
		if pr == nil {
			return kit.Violation("probe:unreported", "kind %s: no probe report for an unauthenticated connection", c.Kind)
		}
		if pr.Status != wantStatus || pr.Bytes != o.clientSent {
			return kit.Violation("probe:report", "kind %s: probe report (status %s, %d bytes), client had sent %d bytes and status should be %s — not every byte was consumed?", c.Kind, pr.Status, pr.Bytes, o.clientSent, wantStatus)
		}
	}
	return nil
}

func TestC06_FakeTime(t *testing.T) {
	maxKeys := 12
	if kit.Tier() == "thorough" {
		maxKeys = 100
	}
	p := kit.Prop[C06Case]{ID: "C06", Name: "FakeTime", Quick: 40000, Thorough: 3000000, Gen: genC06(maxKeys), Run: runC06(t)}
	p.Execute(t)
}

// c06SeenBeforeDeadline replays the client's write schedule (the pipe is synchronous and the server always
// reads, so a byte arrives when it is written) and returns the bytes that arrive strictly before 59 s.
func c06SeenBeforeDeadline(c C06Case, wire []byte) (seen []byte, ambiguous bool) {
	now := time.Duration(0)
	add := func(b []byte) {
		if now < prodTimeout {
			seen = append(seen, b...)
		} else if now == prodTimeout {
			ambiguous = true
		}
	}
	rest := wire
	for _, n := range c.Seg {
		if len(rest) == 0 {
			break
		}
		n = min(n, len(rest))
		add(rest[:n])
		rest = rest[n:]
		now += time.Duration(c.GapMs) * time.Millisecond
	}
	if len(rest) > 0 {
		add(rest)
	}
	if c.Client == "trickle" {
		for i := 0; i < c.TrickleN; i++ {
			now += time.Duration(c.TrickleMs) * time.Millisecond
			add([]byte{byte(i)})
		}
	}
	return seen, ambiguous
}
