package props

// C17 (end to end, fake time) — the real stream handler reports to the real collector; tunnel time per key equals
// the time during which authenticated connections of that key were open. Connections that do not authenticate —
// random bytes, replays of an accepted handshake (replay history on), reflections of the server's own salt — stay
// open for as long as the client (or the 59 s timeout) keeps them and contribute nothing.

import (
	"context"
	"fmt"
	"io"
	"math"
	"net"
	"sync"
	"testing"
	"testing/synctest"
	"time"

	outline_prometheus "github.com/Jigsaw-Code/outline-ss-server/prometheus"
	"github.com/Jigsaw-Code/outline-sdk/transport"
	"github.com/Jigsaw-Code/outline-ss-server/service"
	"github.com/prometheus/client_golang/prometheus"
	"pgregory.net/rapid"
	"verif/harness/kit"
)

type C17Conn struct {
	Kind   string `json:"kind"` // valid | random | replay | reflect
	IP     int    `json:"ip"`
	Key    int    `json:"key"`
	HoldMs int64  `json:"hold_ms"`
	Of     int    `json:"of,omitempty"` // replay/reflect: which earlier valid connection (modulo their number)
}

type C17E2E struct {
	Keys   []kit.KeySpec `json:"keys"`
	CacheN int           `json:"cache_n"`
	Seed   int64         `json:"seed"`
	Conns  []C17Conn     `json:"conns"`
}

func genC17E2E(t *rapid.T) C17E2E {
	c := C17E2E{CacheN: rapid.SampledFrom([]int{0, 5, 100}).Draw(t, "cache"), Seed: rapid.Int64Range(1, 1<<40).Draw(t, "seed")}
	nk := rapid.IntRange(1, 3).Draw(t, "keys")
	for i := 0; i < nk; i++ {
		c.Keys = append(c.Keys, kit.KeySpec{ID: fmt.Sprintf("key-%d", i), Cipher: rapid.SampledFrom(kit.AllCiphers).Draw(t, "cipher"), Secret: fmt.Sprintf("e2e-secret-%d", i)})
	}
	n := rapid.IntRange(1, 8).Draw(t, "n")
	for i := 0; i < n; i++ {
		c.Conns = append(c.Conns, C17Conn{Kind: rapid.SampledFrom([]string{"valid", "valid", "random", "replay", "replay", "reflect"}).Draw(t, "kind"), IP: rapid.IntRange(0, 2).Draw(t, "ip"),
			Key: rapid.IntRange(0, nk-1).Draw(t, "key"), Of: rapid.IntRange(0, 7).Draw(t, "of"),
			HoldMs: rapid.SampledFrom([]int64{0, 1, 1500, 30_000, 58_999, 59_000, 100_000, 3_600_000}).Draw(t, "hold")})
	}
	return c
}

type pairDialer struct {
	mu   sync.Mutex
	ends []*kit.DuplexEnd
}

func (d *pairDialer) DialStream(ctx context.Context, addr string) (transport.StreamConn, error) {
	tgt, proxy := kit.NewDuplexPair(&net.TCPAddr{IP: net.IPv4(192, 0, 2, 8), Port: 4001})
	d.mu.Lock()
	d.ends = append(d.ends, tgt)
	d.mu.Unlock()
	go func() { // the target: answers one byte, then echoes nothing and closes when the client's stream ends
		tgt.Write([]byte("y"))
		io.Copy(io.Discard, tgt)
		tgt.CloseWrite()
	}()
	return proxy, nil
}

func runC17E2E(t0 *testing.T) func(c C17E2E, info *kit.Info) *kit.Finding {
	return func(c C17E2E, info *kit.Info) *kit.Finding {
		var f *kit.Finding
		synctest.Test(t0, func(t *testing.T) { f = c17E2EInBubble(c, info) })
		return f
	}
}

func c17E2EInBubble(c C17E2E, info *kit.Info) *kit.Finding {
	sm, err := outline_prometheus.NewServiceMetrics(nil)
	if err != nil {
		return kit.Violation("tunneltime:setup", "%v", err)
	}
	reg := prometheus.NewPedanticRegistry()
	reg.MustRegister(sm)
	var cache *service.ReplayCache
	if c.CacheN > 0 {
		rc := service.NewReplayCache(c.CacheN)
		cache = &rc
	}
	h := service.NewStreamHandler(service.NewShadowsocksStreamAuthenticator(kit.NewCipherList(c.Keys), cache, nil, nil), prodTimeout)
	h.SetTargetDialer(&pairDialer{})
	ips := []string{"203.0.113.1", "203.0.113.2", "2001:db8::7"}
	type accepted struct {
		key     int
		wire    []byte
		srvSalt []byte
	}
	var valid []accepted
	checked := 0 // handshakes the replay history has been asked about
	want := map[string]time.Duration{}
	var log []string
	for i, cn := range c.Conns {
		ks := c.Keys[cn.Key]
		key := ks.Key()
		kind := cn.Kind
		var wire []byte
		keyID := ks.ID
		switch kind {
		case "valid":
			wire = kit.NewStreamEncoder(key, kit.DetBytes(c.Seed+int64(i)*31, key.SaltSize())).Chunk(append(kit.SocksAddrFor("192.0.2.8:4001", false), "x"...))
		case "random":
			wire = kit.DetBytes(c.Seed+int64(i)*37, 80)
		case "replay", "reflect":
			if len(valid) == 0 {
				kind, wire = "random", kit.DetBytes(c.Seed+int64(i)*37, 80)
				break
			}
			a := valid[cn.Of%len(valid)]
			keyID = c.Keys[a.key].ID
			if kind == "replay" {
				wire = append([]byte(nil), a.wire...)
			} else if c.Keys[a.key].Key().SaltSize() >= 24 && len(a.srvSalt) >= 50 {
				wire = append([]byte(nil), a.srvSalt...) // the server's own response stream, sent back to it
			} else {
				kind, wire = "random", kit.DetBytes(c.Seed+int64(i)*37, 80)
			}
		}
		// does this stream authenticate?  valid: yes.  replay: only when the history is off (then it is an ordinary
		// valid stream: the server keeps no record).  reflect: never opens a header except by forging; random: never.
		auth := kind == "valid" || (kind == "replay" && c.CacheN == 0)
		if kind == "replay" && c.CacheN > 0 {
			// still within the history? the cache holds at least the last CacheN checked handshakes; count the
			// authenticated handshakes checked since the original: only judge when surely remembered
			if checked >= c.CacheN {
				log = append(log, fmt.Sprintf("conn %d: replay not judged (history of %d may have forgotten it)", i, c.CacheN))
				continue
			}
		}
		if kind == "valid" || kind == "replay" {
			checked++
		}
		cl, srv := kit.NewDuplexPair(&net.TCPAddr{IP: net.ParseIP(ips[cn.IP]), Port: 20000 + i})
		done := make(chan struct{})
		go func() { h.Handle(context.Background(), srv, sm.AddOpenTCPConnection(srv)); close(done) }()
		var got []byte
		var rwg sync.WaitGroup
		rwg.Add(1)
		go func() { defer rwg.Done(); got, _ = io.ReadAll(cl) }()
		start := time.Now()
		if _, err := cl.Write(wire); err != nil {
			return kit.Violation("tunneltime:e2e-write", "conn %d: %v", i, err)
		}
		synctest.Wait()
		time.Sleep(time.Duration(cn.HoldMs) * time.Millisecond)
		cl.CloseWrite()
		select {
		case <-done:
		case <-time.After(2 * time.Minute):
			cl.Close()
			<-done
			rwg.Wait()
			return kit.Violation("tunneltime:e2e-stuck", "conn %d (%s) of %+v: the handler did not return within 2 minutes (fake) after the client finished", i, kind, c)
		}
		held := time.Since(start)
		cl.Close()
		rwg.Wait()
		if auth {
			held = time.Duration(cn.HoldMs) * time.Millisecond
			want[keyID] += held
			if kind == "valid" {
				valid = append(valid, accepted{key: cn.Key, wire: wire, srvSalt: got}) // srvSalt: the whole response stream
			}
		}
		log = append(log, fmt.Sprintf("conn %d: %s from %s under %s, client stays %v, authenticates=%v", i, kind, ips[cn.IP], keyID, time.Duration(cn.HoldMs)*time.Millisecond, auth))
		info.Class("e2e:" + kind)
		if !auth && cn.HoldMs >= 1000 {
			info.NonTrivial = true
		}
	}
	mfs, err := reg.Gather()
	if err != nil {
		return kit.Violation("tunneltime:gather", "%v", err)
	}
	gotT := map[string]float64{}
	for _, mf := range mfs {
		if mf.GetName() != "tunnel_time_seconds" {
			continue
		}
		for _, m := range mf.GetMetric() {
			gotT[m.GetLabel()[0].GetValue()] += m.GetCounter().GetValue()
		}
	}
	for _, ks := range c.Keys {
		if math.Abs(gotT[ks.ID]-want[ks.ID].Seconds()) > 1e-6 {
			return kit.Violation("tunneltime:e2e-total", "tunnel_time_seconds{%s} = %.6f s, authenticated connections of that key were open for %.6f s in all; history: %v", ks.ID, gotT[ks.ID], want[ks.ID].Seconds(), log)
		}
	}
	info.Steps = len(c.Conns)
	return nil
}

func TestC17_E2E(t *testing.T) {
	p := kit.Prop[C17E2E]{ID: "C17", Name: "E2E", Quick: 3000, Thorough: 300000, Gen: genC17E2E, Run: runC17E2E(t)}
	p.Execute(t)
}
