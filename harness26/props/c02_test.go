package props

// C02 (fake-time engine) — the relay keeps both directions intact across idle periods of any length.
//
// The real StreamHandler relays between two in-memory duplex conns inside a testing/synctest bubble. A generated
// script interleaves client sends, target sends, either side's half-close and *pauses* of up to several hours of
// fake time. An established relay has no idle timeout: whatever the pauses, the target must receive exactly the
// client's plaintext (EOF only after the client's own half-close), and the client must decrypt exactly the
// target's bytes (EOF only after the target's half-close).

import (
	"bytes"
	"context"
	"errors"
	"fmt"
	"io"
	"net"
	"sync"
	"testing"
	"testing/synctest"
	"time"

	"github.com/Jigsaw-Code/outline-sdk/transport"
	"github.com/Jigsaw-Code/outline-ss-server/service"
	"pgregory.net/rapid"
	"verif/harness/kit"
)

type C02QStep struct {
	Op      string `json:"op"` // csend | tsend | cfin | tfin | pause
	N       int    `json:"n,omitempty"`
	PauseMs int64  `json:"pause_ms,omitempty"`
}

type C02Quiet struct {
	Key   kit.KeySpec `json:"key"`
	Seed  int64       `json:"seed"`
	Steps []C02QStep  `json:"steps"`
}

func genC02Quiet(t *rapid.T) C02Quiet {
	c := C02Quiet{Key: kit.KeySpec{ID: "k", Cipher: rapid.SampledFrom(kit.AllCiphers).Draw(t, "cipher"), Secret: "quiet-secret"}, Seed: rapid.Int64Range(1, 1<<40).Draw(t, "seed")}
	n := rapid.IntRange(2, 10).Draw(t, "n")
	cfin, tfin := false, false
	for i := 0; i < n; i++ {
		ops := []string{"pause", "pause"}
		if !cfin {
			ops = append(ops, "csend", "cfin")
		}
		if !tfin {
			ops = append(ops, "tsend", "tfin")
		}
		s := C02QStep{Op: rapid.SampledFrom(ops).Draw(t, "op")}
		switch s.Op {
		case "csend", "tsend":
			s.N = rapid.SampledFrom([]int{1, 100, 1000, 16383, 16384, 40000}).Draw(t, "len")
		case "pause":
			s.PauseMs = rapid.SampledFrom([]int64{1, 999, 5_000, 9_999, 10_000, 10_001, 30_000, 59_000, 59_001, 60_000, 120_000, 600_000, 3_600_000, 4 * 3_600_000}).Draw(t, "pause")
		case "cfin":
			cfin = true
		case "tfin":
			tfin = true
		}
		c.Steps = append(c.Steps, s)
	}
	return c
}

// pipeDialer hands the handler the proxy side of an in-memory target connection.
type pipeDialer struct{ conn transport.StreamConn }

func (d *pipeDialer) DialStream(ctx context.Context, addr string) (transport.StreamConn, error) {
	return d.conn, nil
}

func runC02Quiet(t0 *testing.T) func(c C02Quiet, info *kit.Info) *kit.Finding {
	return func(c C02Quiet, info *kit.Info) *kit.Finding {
		var f *kit.Finding
		synctest.Test(t0, func(t *testing.T) { f = c02QuietInBubble(c, info) })
		return f
	}
}

func c02QuietInBubble(c C02Quiet, info *kit.Info) *kit.Finding {
	key := c.Key.Key()
	h := service.NewStreamHandler(service.NewShadowsocksStreamAuthenticator(kit.NewCipherList([]kit.KeySpec{c.Key}), nil, nil, nil), prodTimeout)
	// tgtProxy is what the handler gets from its dialer; tgt is the target's own end
	tgt, tgtProxy := kit.NewDuplexPair(&net.TCPAddr{IP: net.IPv4(192, 0, 2, 7), Port: 4000})
	h.SetTargetDialer(&pipeDialer{conn: tgtProxy})
	cl, srv := kit.NewDuplexPair(&net.TCPAddr{IP: net.IPv4(203, 0, 113, 9), Port: 5555})
	rec := kit.NewRecTCPConn()
	done := make(chan struct{})
	go func() { h.Handle(context.Background(), srv, rec); close(done) }()

	var mu sync.Mutex
	var tgtGot []byte    // what the target has read so far
	tgtEOF := false      // the target has seen the end of the client's stream
	var tgtErr error     // a read error other than EOF at the target
	dec := kit.NewStreamDecoder(key)
	clEOF := false
	var clErr error
	var wg sync.WaitGroup
	wg.Add(2)
	go func() { // the target reads all the time
		defer wg.Done()
		buf := make([]byte, 32768)
		for {
			n, err := tgt.Read(buf)
			mu.Lock()
			tgtGot = append(tgtGot, buf[:n]...)
			if err != nil {
				if errors.Is(err, io.EOF) {
					tgtEOF = true
				} else {
					tgtErr = err
				}
				mu.Unlock()
				return
			}
			mu.Unlock()
		}
	}()
	go func() { // the client reads all the time
		defer wg.Done()
		buf := make([]byte, 32768)
		for {
			n, err := cl.Read(buf)
			mu.Lock()
			if n > 0 {
				dec.Feed(buf[:n])
			}
			if err != nil {
				if errors.Is(err, io.EOF) {
					clEOF = true
				} else {
					clErr = err
				}
				mu.Unlock()
				return
			}
			mu.Unlock()
		}
	}()

	enc := kit.NewStreamEncoder(key, kit.DetBytes(c.Seed, key.SaltSize()))
	fail := func(kind, format string, a ...any) *kit.Finding {
		cl.Close()
		tgt.Close()
		srv.Close()
		tgtProxy.Close()
		<-done
		wg.Wait()
		return kit.Violation(kind, format, a...)
	}
	// the handshake: address header alone in the first chunk
	if _, err := cl.Write(enc.Chunk(kit.SocksAddrFor("192.0.2.7:4000", false))); err != nil {
		return fail("relay:client-write", "writing the handshake failed: %v", err)
	}
	var wantTgt, wantCl []byte
	cfin, tfin := false, false
	var elapsed time.Duration
	longestAfterFin := time.Duration(0)
	check := func(step int) *kit.Finding {
		synctest.Wait()
		mu.Lock()
		defer mu.Unlock()
		hist := fmt.Sprintf("after step %d of %+v (%v of fake time since the handshake)", step, c.Steps, elapsed)
		if tgtErr != nil {
			return kit.Violation("relay:target-read-error", "%s: the target's read failed with %v", hist, tgtErr)
		}
		if clErr != nil {
			return kit.Violation("relay:client-read-error", "%s: the client's read failed with %v", hist, clErr)
		}
		if !bytes.Equal(tgtGot, wantTgt) {
			return kit.Violation("relay:c2t-mismatch", "%s: the target has received %d bytes, the client has sent %d bytes of plaintext (first difference at %d)", hist, len(tgtGot), len(wantTgt), firstDiff(tgtGot, wantTgt))
		}
		if dec.Err != nil {
			return kit.Violation("relay:t2c-undecodable", "%s: the client cannot decrypt what the server sent: %v", hist, dec.Err)
		}
		if !bytes.Equal(dec.Plain, wantCl) {
			return kit.Violation("relay:t2c-mismatch", "%s: the client has decrypted %d bytes, the target has sent %d (first difference at %d)", hist, len(dec.Plain), len(wantCl), firstDiff(dec.Plain, wantCl))
		}
		if tgtEOF != cfin {
			return kit.Violation("relay:c2t-eof", "%s: the target has seen end-of-stream = %v, the client has half-closed = %v", hist, tgtEOF, cfin)
		}
		if clEOF != tfin {
			return kit.Violation("relay:t2c-eof", "%s: the client has seen end-of-stream = %v, the target has half-closed = %v", hist, clEOF, tfin)
		}
		return nil
	}
	for i, s := range c.Steps {
		switch s.Op {
		case "csend":
			p := kit.DetBytes(c.Seed+int64(i)*7919, s.N)
			var wire []byte
			for off := 0; off < len(p); off += 16383 {
				wire = append(wire, enc.Chunk(p[off:min(off+16383, len(p))])...)
			}
			if _, err := cl.Write(wire); err != nil {
				return fail("relay:client-write", "step %d of %+v, %v after the handshake: the client's write of %d bytes failed: %v", i, c.Steps, elapsed, len(wire), err)
			}
			wantTgt = append(wantTgt, p...)
		case "tsend":
			p := kit.DetBytes(c.Seed+int64(i)*104729, s.N)
			if _, err := tgt.Write(p); err != nil {
				return fail("relay:target-write", "step %d of %+v, %v after the handshake: the target's write of %d bytes failed: %v", i, c.Steps, elapsed, len(p), err)
			}
			wantCl = append(wantCl, p...)
		case "cfin":
			cl.CloseWrite()
			cfin = true
		case "tfin":
			tgt.CloseWrite()
			tfin = true
		case "pause":
			time.Sleep(time.Duration(s.PauseMs) * time.Millisecond)
			elapsed += time.Duration(s.PauseMs) * time.Millisecond
			if (cfin || tfin) && !(cfin && tfin) {
				longestAfterFin = max(longestAfterFin, time.Duration(s.PauseMs)*time.Millisecond)
			}
		}
		if f := check(i); f != nil {
			return fail(f.Signature, "%s", f.Msg)
		}
		if cfin && tfin {
			break
		}
	}
	// wind down: both sides finish; the handler must return
	if !cfin {
		cl.CloseWrite()
	}
	if !tfin {
		tgt.CloseWrite()
	}
	select {
	case <-done:
	case <-time.After(10 * time.Minute):
		return fail("relay:never-ends", "both sides have half-closed, the handler has not returned 10 minutes (fake) later; steps %+v", c.Steps)
	}
	cl.Close()
	tgt.Close()
	wg.Wait()
	info.Steps = len(c.Steps)
	info.NonTrivial = longestAfterFin >= 10*time.Second // a pause of 10 s or more while exactly one direction is closed
	return nil
}

func firstDiff(a, b []byte) int {
	for i := 0; i < len(a) && i < len(b); i++ {
		if a[i] != b[i] {
			return i
		}
	}
	return min(len(a), len(b))
}

func TestC02_Quiet(t *testing.T) {
	p := kit.Prop[C02Quiet]{ID: "C02", Name: "Quiet", Quick: 3000, Thorough: 300000, Gen: genC02Quiet, Run: runC02Quiet(t)}
	p.Execute(t)
}
