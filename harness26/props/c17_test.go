package props

// C17 (sequential, fake time) — tunnel time equals the time each client actually had a tunnel open.
//
// A generated history over the exported ServiceMetrics API of the real Prometheus
// collector inside a testing/synctest bubble (the collector's clock is time.Now, so
// the fake clock covers it without stubbing). Oracle: a ledger of open intervals per (IP, key).

import (
	"errors"
	"fmt"
	"math"
	"net"
	"testing"
	"testing/synctest"
	"time"

	"github.com/Jigsaw-Code/outline-ss-server/ipinfo"
	outline_prometheus "github.com/Jigsaw-Code/outline-ss-server/prometheus"
	"github.com/Jigsaw-Code/outline-ss-server/service"
	"github.com/Jigsaw-Code/outline-ss-server/service/metrics"
	"github.com/prometheus/client_golang/prometheus"
	"pgregory.net/rapid"
	"verif/harness/kit"
)

type C17Op struct {
	Kind    string `json:"kind"` // tcpOpen | tcpAuth | tcpClose | udpAdd | udpRemove | advance | scrape
	IP      int    `json:"ip,omitempty"`
	Key     int    `json:"key,omitempty"`
	Handle  int    `json:"handle,omitempty"`
	DeltaMs int64  `json:"delta_ms,omitempty"`
}

type C17Case struct {
	IPs  []string `json:"ips"`
	Keys int      `json:"keys"`
	DB   bool     `json:"db"`
	// DBErr: the location database fails for some clients (an IPv4-only database asked about an IPv6 client, a
	// corrupt record): their tunnel time counts all the same
	DBErr bool    `json:"db_err,omitempty"`
	// NumIDs: the access keys are called 23, 3 and 1 instead of key-0, key-1, key-2 (Outline numbers its keys), and
	// the clients include 20.0.0.1 and 20.0.0.12: address and id of different clients may read alike when joined
	NumIDs bool    `json:"num_ids,omitempty"`
	Ops    []C17Op `json:"ops"`
}

func (c C17Case) keyID(k int) string {
	if c.NumIDs {
		return []string{"23", "3", "1"}[k]
	}
	return fmt.Sprintf("key-%d", k)
}

var c17IPs = []string{"203.0.113.1", "203.0.113.2", "2001:db8::7", "198.51.100.9", "127.0.0.1", "10.0.0.5", "::ffff:203.0.113.1"}

func genC17(maxOps int) func(t *rapid.T) C17Case {
	return func(t *rapid.T) C17Case {
		c := C17Case{IPs: rapid.SliceOfNDistinct(rapid.SampledFrom(c17IPs), 1, 4, rapid.ID[string]).Draw(t, "ips"), Keys: rapid.IntRange(1, 3).Draw(t, "keys"), DB: rapid.Bool().Draw(t, "db"), DBErr: rapid.IntRange(0, 2).Draw(t, "dberr") == 0}
		if rapid.IntRange(0, 3).Draw(t, "numIDs") == 0 {
			c.NumIDs = true
			c.IPs = []string{"20.0.0.1", "20.0.0.12"}
			if rapid.Bool().Draw(t, "third") {
				c.IPs = append(c.IPs, "20.0.0.123")
			}
			c.Keys = 3
		}
		n := rapid.IntRange(1, maxOps).Draw(t, "nops")
		for i := 0; i < n; i++ {
			op := C17Op{Kind: rapid.SampledFrom([]string{"tcpOpen", "tcpOpen", "tcpAuth", "tcpAuth", "tcpClose", "udpAdd", "udpRemove", "advance", "advance", "scrape", "scrape"}).Draw(t, "kind")}
			op.IP = rapid.IntRange(0, len(c.IPs)-1).Draw(t, "ip")
			op.Key = rapid.IntRange(0, c.Keys-1).Draw(t, "key")
			op.Handle = rapid.IntRange(0, 1000).Draw(t, "handle")
			if op.Kind == "advance" {
				op.DeltaMs = rapid.OneOf(rapid.Int64Range(0, 5000), rapid.Int64Range(0, 7_200_000), rapid.SampledFrom([]int64{0, 1, 999, 1000, 60_000, 3_600_000})).Draw(t, "delta")
			}
			c.Ops = append(c.Ops, op)
		}
		return c
	}
}

type c17DB struct{ failSome bool }

func (d c17DB) GetIPInfo(ip net.IP) (ipinfo.IPInfo, error) {
	if d.failSome && (ip.To4() == nil || ip[len(ip)-1]%2 == 1) {
		return ipinfo.IPInfo{}, errors.New("lookup failed")
	}
	// location decided by the last byte, so that several locations occur
	cc := []string{"US", "BR", "IR", ""}[int(ip[len(ip)-1])%4]
	return ipinfo.IPInfo{CountryCode: ipinfo.CountryCode(cc), ASN: ipinfo.ASN{Number: int(ip[len(ip)-1]) % 3}}, nil
}

type c17Client struct {
	open  int
	start time.Time
	total time.Duration
	segs  int
}

type c17Conn struct {
	tcp    service.TCPConnMetrics
	udp    service.UDPConnMetrics
	ip     int
	key    int // -1: not authenticated
	closed bool
}

func runC17(t0 *testing.T) func(c C17Case, info *kit.Info) *kit.Finding {
	return func(c C17Case, info *kit.Info) *kit.Finding {
		var f *kit.Finding
		synctest.Test(t0, func(t *testing.T) { f = c17InBubble(c, info) })
		return f
	}
}

func c17InBubble(c C17Case, info *kit.Info) *kit.Finding {
	var db ipinfo.IPInfoMap
	if c.DB {
		db = c17DB{failSome: c.DBErr}
		if c.DBErr {
			info.Class("location-lookup-fails-for-some-clients")
		}
	}
	sm, err := outline_prometheus.NewServiceMetrics(db)
	if err != nil {
		return kit.Violation("tunneltime:setup", "%v", err)
	}
	reg := prometheus.NewPedanticRegistry()
	reg.MustRegister(sm)

	type ck struct {
		ip  string
		key int
	}
	ledger := map[ck]*c17Client{}
	var conns []*c17Conn
	live := func() []*c17Conn {
		var out []*c17Conn
		for _, x := range conns {
			if !x.closed {
				out = append(out, x)
			}
		}
		return out
	}
	canon := func(ip string) string { return net.ParseIP(ip).String() } // mapped and plain forms are one client
	start := func(ip, key int) {
		k := ck{canon(c.IPs[ip]), key}
		cl := ledger[k]
		if cl == nil {
			cl = &c17Client{}
			ledger[k] = cl
		}
		if cl.open == 0 {
			cl.start = time.Now()
		}
		cl.open++
		if cl.open >= 2 {
			info.Class("overlapping-tunnels")
		}
	}
	stop := func(ip, key int) {
		cl := ledger[ck{canon(c.IPs[ip]), key}]
		cl.open--
		if cl.open == 0 {
			cl.total += time.Since(cl.start)
			cl.segs++
		}
	}
	prev := map[string]float64{}
	scrapes, overlapScrape, reopenAfterScrape := 0, false, false
	closedSinceScrape := map[ck]bool{}
	scrapedAfterClose := map[ck]bool{}

	for i, op := range c.Ops {
		info.Steps++
		switch op.Kind {
		case "tcpOpen":
			conn := kit.NewMemConn(nil, &net.TCPAddr{IP: net.ParseIP(c.IPs[op.IP]), Port: 1024 + i})
			conns = append(conns, &c17Conn{tcp: sm.AddOpenTCPConnection(conn), ip: op.IP, key: -1})
		case "tcpAuth":
			var cand []*c17Conn
			for _, x := range live() {
				if x.tcp != nil && x.key < 0 {
					cand = append(cand, x)
				}
			}
			if len(cand) == 0 {
				continue
			}
			x := cand[op.Handle%len(cand)]
			x.key = op.Key
			k := ck{canon(c.IPs[x.ip]), op.Key}
			if scrapedAfterClose[k] {
				reopenAfterScrape = true
			}
			x.tcp.AddAuthenticated(c.keyID(op.Key))
			start(x.ip, op.Key)
		case "tcpClose":
			var cand []*c17Conn
			for _, x := range live() {
				if x.tcp != nil {
					cand = append(cand, x)
				}
			}
			if len(cand) == 0 {
				continue
			}
			x := cand[op.Handle%len(cand)]
			x.closed = true
			status := "OK"
			if x.key < 0 {
				status = "ERR_CIPHER"
				info.Class("unauthenticated-close")
			}
			x.tcp.AddClosed(status, metrics.ProxyMetrics{ClientProxy: 10}, time.Second)
			if x.key >= 0 {
				stop(x.ip, x.key)
				closedSinceScrape[ck{canon(c.IPs[x.ip]), x.key}] = true
			}
		case "udpAdd":
			k := ck{canon(c.IPs[op.IP]), op.Key}
			if scrapedAfterClose[k] {
				reopenAfterScrape = true
			}
			u := sm.AddUDPNatEntry(&net.UDPAddr{IP: net.ParseIP(c.IPs[op.IP]), Port: 2048 + i}, c.keyID(op.Key))
			conns = append(conns, &c17Conn{udp: u, ip: op.IP, key: op.Key})
			start(op.IP, op.Key)
		case "udpRemove":
			var cand []*c17Conn
			for _, x := range live() {
				if x.udp != nil {
					cand = append(cand, x)
				}
			}
			if len(cand) == 0 {
				continue
			}
			x := cand[op.Handle%len(cand)]
			x.closed = true
			x.udp.RemoveNatEntry()
			stop(x.ip, x.key)
			closedSinceScrape[ck{canon(c.IPs[x.ip]), x.key}] = true
		case "advance":
			time.Sleep(time.Duration(op.DeltaMs) * time.Millisecond)
		case "scrape":
			scrapes++
			mfs, err := reg.Gather()
			if err != nil {
				return kit.Violation("tunneltime:gather-error", "op %d: Gather failed: %v", i, err)
			}
			perKey := map[string]float64{}
			var sumLoc float64
			for _, mf := range mfs {
				for _, m := range mf.GetMetric() {
					id := mf.GetName()
					for _, l := range m.GetLabel() {
						id += "|" + l.GetName() + "=" + l.GetValue()
					}
					if m.Counter != nil {
						v := m.Counter.GetValue()
						if v < prev[id] {
							return kit.Violation("tunneltime:counter-decreased", "op %d: %s went from %v to %v", i, id, prev[id], v)
						}
						prev[id] = v
						switch mf.GetName() {
						case "tunnel_time_seconds":
							perKey[m.GetLabel()[0].GetValue()] += v
						case "tunnel_time_seconds_per_location":
							sumLoc += v
						}
					}
				}
			}
			var sumKeys float64
			segs := 0
			for k := 0; k < c.Keys; k++ {
				var want time.Duration
				for ck, cl := range ledger {
					if ck.key != k {
						continue
					}
					want += cl.total
					segs += cl.segs + scrapes
					if cl.open > 0 {
						want += time.Since(cl.start)
						if cl.open >= 2 {
							overlapScrape = true
						}
					}
				}
				got := perKey[c.keyID(k)]
				sumKeys += got
				tol := 1e-6 * float64(segs+1)
				if math.Abs(got-want.Seconds()) > tol {
					return kit.Violation("tunneltime:wrong-total", "op %d (scrape %d): tunnel_time_seconds{%s} = %.6f s, the ledger says %.6f s (difference %.6f s)", i, scrapes, c.keyID(k), got, want.Seconds(), got-want.Seconds())
				}
			}
			if math.Abs(sumKeys-sumLoc) > 1e-6*float64(segs+1) {
				return kit.Violation("tunneltime:location-mismatch", "op %d: per-key total %.6f s, per-location total %.6f s", i, sumKeys, sumLoc)
			}
			for k := range closedSinceScrape {
				scrapedAfterClose[k] = true
			}
			closedSinceScrape = map[ck]bool{}
		}
	}
	info.NonTrivial = overlapScrape || reopenAfterScrape
	if overlapScrape {
		info.Class("scrape-inside-overlap")
	}
	if reopenAfterScrape {
		info.Class("close-scrape-reopen")
	}
	return nil
}

func TestC17_Ledger(t *testing.T) {
	p := kit.Prop[C17Case]{ID: "C17", Name: "Ledger", Quick: 60000, Thorough: 8000000, Gen: genC17(40), Run: runC17(t)}
	p.Execute(t)
}
